#!/usr/bin/env python3
"""apply every seeded change under /verif/seeded to /repo, run the checks, undo it; prints a detection matrix
usage: run_seeded.py [name-prefix ...] [--props C02,C03]"""
import os, sys, subprocess, json, glob, time
ROOT = os.path.dirname(os.path.dirname(os.path.abspath(__file__)))
args = [a for a in sys.argv[1:] if not a.startswith('--')]
props = None
for a in sys.argv[1:]:
    if a.startswith('--props='): props = a.split('=')[1].split(',')
def sh(c): return subprocess.run(c, shell=True, capture_output=True, text=True)
assert sh('git -C /repo status --porcelain').stdout.strip() == '', '/repo not clean'
res = {}
for d in sorted(glob.glob(os.path.join(ROOT, 'seeded', '*'))):
    name = os.path.basename(d)
    if args and not any(name.startswith(a) for a in args): continue
    target = name.split('-')[0]
    r = sh('git -C /repo apply %s/patch.diff' % d)
    if r.returncode != 0: print(name, 'PATCH FAILS', r.stderr[:200]); continue
    try:
        row = {}
        for pid in (props or [target]):
            t0 = time.time()
            c = sh('cd %s && mkdir -p gen/ev_seeded && VERIF_EVIDENCE_DIR=%s/gen/ev_seeded ./check %s' % (ROOT, ROOT, pid))
            v = [l for l in c.stdout.split('\n') if l.startswith('VIOLATION') or l.startswith('FAILED-OBLIGATION') or l.startswith('MACHINERY') or l.startswith('FAILING-INPUT')]
            row[pid] = dict(rc=c.returncode, lines=v[:6], s=round(time.time() - t0))
            print('%-8s %s rc=%d %3ds  %s' % (name, pid, c.returncode, time.time() - t0, ' | '.join(x[:150] for x in v[:3])), flush=True)
        res[name] = row
    finally:
        sh('git -C /repo checkout -- .')
json.dump(res, open(os.path.join(ROOT, 'gen', 'seeded_results.json'), 'w'), indent=1)
