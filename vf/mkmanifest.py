#!/usr/bin/env python3
"""writes /verif/MANIFEST.json from the table below (kept in one place so it stays valid and current)"""
import json, os
ROOT = os.path.dirname(os.path.dirname(os.path.abspath(__file__)))
LEVEL_NOTE = ('Trusted base: scalar model M-real (exact real arithmetic for the crate\'s generic Float; no rounding/NaN/inf), '
              'axioms for exp/cos/sin/ln/log2/tanh/sqrt, vstd + assume_specification specs of VecDeque/Vec/Option, '
              'extraction rules M1-M6, R1-R15, F1, L1, P1 (bodies otherwise byte-identical to /repo; validated on every run, within a bound, by executing the '
              'generated Verus text against the real crate bit for bit), axioms re-checked numerically on every run, assumed std contracts '
              'checked by Kani up to 3 elements in the thorough tier. Full list in the evidence file.')
CHECKS = {
    # id: (category, text, technique, design_ref)
}
NOT_APPLICABLE = {
    'C16': 'floating-point rounding drift over 10^6-step streams: Verus has no float semantics (the scalar model is exact by construction) and Kani/CBMC floats only reach a handful of unrolled steps; no contract within reach can express or decide it (DESIGN.md 3/C16)',
}
def load():
    import importlib.util
    spec = importlib.util.spec_from_file_location('claims', os.path.join(ROOT, 'vf', 'claims.py'))
    m = importlib.util.module_from_spec(spec); spec.loader.exec_module(m)
    return m
def main():
    c = load()
    checks = []
    for pid in sorted(c.CLAIMS):
        d = c.CLAIMS[pid]
        checks.append(dict(property_id=pid, quick_cmd='./check %s' % pid, thorough_cmd='./check %s --tier thorough' % pid,
                           evidence_file='evidence/%s.json' % pid, replay_cmd_template='./check %s --replay {path}' % pid,
                           engine='verus-contracts',
                           level_claimed=dict(category=d.get('category', 'proof'), text=d['text'], design_ref=d.get('design_ref', 'DESIGN.md section 3/' + pid)),
                           level_note=d.get('note', LEVEL_NOTE), technique=d['technique']))
    na = dict(NOT_APPLICABLE); na.update(getattr(c, 'NOT_APPLICABLE', {}))
    props = [json.loads(l)['id'] for l in open(os.path.join(ROOT, 'properties.jsonl'))]
    for p in props:
        if p not in c.CLAIMS and p not in na:
            na[p] = 'not yet decided by the framework (work in progress)'
    man = dict(version=1,
               setup_cmd='sh vf/setup.sh',
               hooks=dict(guard='sliding_features_verif', enable='none needed: contracts live in /verif and are injected into text extracted from /repo on every run', baseline_off_cmd='cd /repo && cargo test --workspace --no-fail-fast --offline', source_commits=[], add_only=True),
               engines=[dict(name='verus-contracts', path='vf/driver.py', serves_properties=sorted(c.CLAIMS), kind_free_text='contract-based deductive verification: real function bodies extracted from /repo on every run, contracts injected, discharged by Verus/Z3; Kani/CBMC for loop-free bit-level proofs and bounded stand-ins; native probe on the real crate for counterexample replay')],
               checks=checks,
               not_applicable=[dict(property_id=k, reason=v) for k, v in sorted(na.items()) if k not in c.CLAIMS],
               notes='see DESIGN.md; KNOWN_FINDINGS.txt lists open findings and fix: commits')
    json.dump(man, open(os.path.join(ROOT, 'MANIFEST.json'), 'w'), indent=1)
    print('MANIFEST.json: %d checks, %d not_applicable' % (len(checks), len(man['not_applicable'])))
if __name__ == '__main__':
    main()
