#!/usr/bin/env python3
"""Translation validation of the extraction (bounded, differential): the generated Verus file - the very text whose obligations are
discharged - is compiled by Verus itself (`verus --no-verify --compile`, which erases the ghost code) after the trusted scalar model
`R { g: Ghost<real> }` has been swapped for an executable one (`R { x: f64 }`, every external_body operation implemented by the
corresponding f64 operation).  The resulting binary and the probe (the REAL crate) replay the same cases; every output must agree
bit for bit.  This checks, on every run, that rules M1-M5, R1-R13, F1, L1 and the injection of proof text left the executable
meaning of the extracted functions unchanged.  A disagreement is a defect of the extraction (exit 2), never a verdict on a property.

usage (library): validate(all_rs_path, modules, probe_bin, workdir, seed) -> dict"""
import os, re, subprocess, json, random, struct, time

BODIES = {
    'zero': 'R { x: 0.0 }', 'one': 'R { x: 1.0 }', 'min_value': 'R { x: f64::MIN }', 'max_value': 'R { x: f64::MAX }',
    'from': 'Some(R { x: n.to_f64() })', 'is_finite': 'self.x.is_finite()', 'is_nan': 'self.x.is_nan()', 'abs': 'R { x: self.x.abs() }',
    'signum': 'R { x: self.x.signum() }', 'powi': 'R { x: self.x.powi(n) }', 'sqrt': 'R { x: self.x.sqrt() }', 'exp': 'R { x: self.x.exp() }',
    'cos': 'R { x: self.x.cos() }', 'sin': 'R { x: self.x.sin() }', 'ln': 'R { x: self.x.ln() }', 'log2': 'R { x: self.x.log2() }',
    'tanh': 'R { x: self.x.tanh() }', 'max': 'R { x: self.x.max(o.x) }', 'min': 'R { x: self.x.min(o.x) }',
    'epsilon': 'R { x: f64::EPSILON }', 'min_positive_value': 'R { x: f64::MIN_POSITIVE }', 'is_normal': 'self.x.is_normal()',
    'is_sign_negative': 'self.x.is_sign_negative()', 'is_sign_positive': 'self.x.is_sign_positive()', 'recip': 'R { x: self.x.recip() }',
    'mul_add': 'R { x: self.x.mul_add(a.x, b.x) }', 'clamp': 'R { x: if self.x < lo.x { lo.x } else if self.x > hi.x { hi.x } else { self.x } }',
    'add': 'R { x: self.x + rhs.x }', 'sub': 'R { x: self.x - rhs.x }', 'mul': 'R { x: self.x * rhs.x }', 'div': 'R { x: self.x / rhs.x }',
    'neg': 'R { x: -self.x }', 'eq': 'self.x == other.x', 'partial_cmp': 'self.x.partial_cmp(&other.x)',
    # R2 / R6: the expressions of /repo/src that the helpers stand for
    'deque_min': 'q.iter().copied().min_by(|a, b| a.partial_cmp(b).expect("Can compare elements"))',
    'deque_max': 'q.iter().copied().max_by(|a, b| a.partial_cmp(b).expect("Can compare elements"))',
    'vec_last': 'v.last().copied()',
}

# kind (the probe's name) -> (module stem, constructor over $i with window length n)
KINDS = {
    'sma': ('sma', 'Sma::new($i, n)'), 'ema': ('ema', 'Ema::new($i, n)'), 'alma': ('alma', 'Alma::new($i, n)'),
    'cumulative': ('cumulative', 'Cumulative::new($i, n)'), 'min': ('min', 'Min::new($i, n)'), 'max': ('max', 'Max::new($i, n)'),
    'welford_online': ('welford_online', 'WelfordOnline::new($i, n)'), 'hl_normalizer': ('hl_normalizer', 'HLNormalizer::new($i, n)'),
    'roc': ('roc', 'Roc::new($i, n)'), 'binary_entropy': ('binary_entropy', 'BinaryEntropy::new($i, n)'),
    'vst': ('variance_stabilizing_transformation', 'Vst::new($i, n)'), 'vsct': ('vsct', 'Vsct::new($i, n)'),
    'center_of_gravity': ('center_of_gravity', 'CenterOfGravity::new($i, n)'), 'cti': ('correlation_trend_indicator', 'CorrelationTrendIndicator::new($i, n)'),
    'net': ('noise_elimination_technology', 'NoiseEliminationTechnology::new($i, n)'), 'rsi': ('rsi', 'Rsi::new($i, n)'), 'my_rsi': ('my_rsi', 'MyRSI::new($i, n)'),
    'laguerre_filter': ('laguerre_filter', 'LaguerreFilter::new($i, R { x: 0.5 + 0.05 * (n as f64) })'), 'laguerre_rsi': ('laguerre_rsi', 'LaguerreRSI::new($i, n)'),
    'super_smoother': ('super_smoother', 'SuperSmoother::new($i, n)'), 'roofing_filter': ('roofing_filter', 'RoofingFilter::new($i, n, n)'),
    'cyber_cycle': ('cyber_cycle', 'CyberCycle::new($i, n)'), 'trend_flex': ('trend_flex', 'TrendFlex::new($i, n)'), 're_flex': ('re_flex', 'ReFlex::new($i, n)'),
    'eft': ('ehlers_fisher_transform', 'EhlersFisherTransform::new($i, Sma::new(Echo::new(), 2), n)'),
    'pfe': ('polarized_fractal_efficiency', 'PolarizedFractalEfficiency::new($i, Sma::new(Echo::new(), 2), n)'),
    'tanh': ('tanh', 'Tanh::new($i)'), 'gte': ('gte', 'GTE::new($i, R { x: 0.5 })'), 'lte': ('lte', 'LTE::new($i, R { x: 0.5 })'),
    'drawdown': ('drawdown', 'Drawdown::new($i)'), 'ln_return': ('ln_return', 'LnReturn::new($i)'), 'welford_rolling': ('welford_rolling', 'WelfordRolling::new($i)'),
    'echo': ('echo', '$i'),
    'add': ('add', 'Add::new($i, Sma::new(Echo::new(), 2))'), 'subtract': ('subtract', 'Subtract::new($i, Sma::new(Echo::new(), 2))'),
    'multiply': ('multiply', 'Multiply::new($i, Sma::new(Echo::new(), 2))'), 'divide': ('divide', 'Divide::new($i, Constant::new(R { x: 4.0 }))'),
    'default_drawdown': ('drawdown', 'Drawdown::<Echo>::default()'), 'default_ln_return': ('ln_return', 'LnReturn::<Echo>::default()'),
    'default_welford_rolling': ('welford_rolling', 'WelfordRolling::<Echo>::default()'),
}
NEEDS = {'eft': ['sma'], 'pfe': ['sma'], 'add': ['sma'], 'subtract': ['sma'], 'multiply': ['sma'], 'divide': ['constant']}
INNERS = {'echo': ('echo', 'Echo::new()'), 'sma': ('sma', 'Sma::new(Echo::new(), 2)'), 'ema': ('ema', 'Ema::new(Echo::new(), 3)')}
MIN_N = {'cyber_cycle': 3, 'pfe': 3, 'eft': 2, 'roofing_filter': 3}
POSITIVE = ('ln_return', 'drawdown', 'default_ln_return', 'default_drawdown', 'roc')
NO_CLONE = ('add',)

def exec_shim(text):
    """swap the scalar model of the generated file for an executable one; everything outside `mod shim` is untouched"""
    a = text.index('pub mod shim {'); b = text.index('pub mod alg {')
    sh = text[a:b]
    def must(old, new, count=1):
        nonlocal sh
        if sh.count(old) < 1: raise RuntimeError('exec shim: pattern not found: ' + old[:60])
        sh = sh.replace(old, new)
    must('pub struct R { pub g: Ghost<real> }', 'pub struct R { pub x: f64 }')
    must('pub open spec fn mk(x: real) -> R { R { g: Ghost(x) } }', 'pub uninterp spec fn mk(x: real) -> R;')
    must('pub open spec fn v(self) -> real { self.g@ }', 'pub uninterp spec fn v(self) -> real;')
    sh = re.sub(r'R \{ g: Ghost\((.*)\) \} \}', r'mk(\1) }', sh)
    must('pub trait ToR { spec fn to_real(self) -> real; }', 'pub trait ToR { spec fn to_real(self) -> real; fn to_f64(self) -> f64; }')
    sh = re.sub(r'(impl ToR for (usize|f64) \{ open spec fn to_real\(self\) -> real \{[^}]*\})', r'\1 #[verifier::external_body] fn to_f64(self) -> f64 { self as f64 }', sh)
    if 'Ghost(' in sh or '.g@' in sh: raise RuntimeError('exec shim: ghost scalar left in the shim')
    def body(m):
        name = m.group(1)
        if name not in BODIES: raise RuntimeError('exec shim: no executable body for ' + name)
        return m.group(0)[:m.group(0).rindex('{')] + '{ ' + BODIES[name] + ' }'
    sh = re.sub(r'\bfn (\w+)(?:(?!\bfn\b)[\s\S])*?\{ unimplemented!\(\) \}', body, sh)
    if 'unimplemented!' in sh: raise RuntimeError('exec shim: unimplemented!() left')
    return text[:a] + sh + text[b:]

DRV = r'''
#[verifier::external]
mod drv {
    use crate::shim::*;
    use crate::shim::View;
    use crate::views::*;
    use std::panic::{catch_unwind, AssertUnwindSafe};
    fn show(o: Option<R>) -> String { match o { Some(r) => format!("{:016x}", r.x.to_bits()), None => "-".to_string() } }
    /// feeds xs; at step `cut` the view is replaced by its clone (clone_view, rule M4) when `cl` is set; prints last() after every update
    fn run<V: View>(mut v: V, xs: &[f64], cut: usize, cl: bool) -> String {
        let mut out = vec![show(v.last())];
        for (t, x) in xs.iter().enumerate() {
            v.update(R { x: *x });
            out.push(show(v.last()));
            if cl && t == cut { let c = v.clone_view(); v = c; }
        }
        out.join(" ")
    }
    fn run_nc<V: View>(mut v: V, xs: &[f64]) -> String {
        let mut out = vec![show(v.last())];
        for x in xs.iter() { v.update(R { x: *x }); out.push(show(v.last())); }
        out.join(" ")
    }
    fn one(kind: &str, inner: &str, n: usize, xs: &[f64], cut: usize) -> String {
        match (kind, inner) {
//@@ARMS@@
            _ => "UNSUPPORTED".to_string(),
        }
    }
    pub fn main() {
        let path = std::env::args().nth(1).expect("cases file");
        std::panic::set_hook(Box::new(|_| {}));
        for line in std::fs::read_to_string(path).unwrap().lines() {
            let f: Vec<&str> = line.split_whitespace().collect();
            if f.len() < 4 { continue; }
            let (kind, inner, n, cut) = (f[0], f[1], f[2].parse::<usize>().unwrap(), f[3].parse::<usize>().unwrap());
            let xs: Vec<f64> = f[4..].iter().map(|h| f64::from_bits(u64::from_str_radix(h, 16).unwrap())).collect();
            let r = catch_unwind(AssertUnwindSafe(|| one(kind, inner, n, &xs, cut)));
            println!("{}", r.unwrap_or_else(|_| "PANIC".to_string()));
        }
    }
}
#[verifier::external]
fn main() { drv::main() }
'''

def make_exec(all_rs, modules, out_rs):
    text = open(all_rs).read()
    text = exec_shim(text)
    # lemma modules and canaries are proof-only: dropped to keep the compilation short
    a = text.index('pub mod props {'); b = text.index('} // mod canary') + len('} // mod canary')
    text = text[:a] + text[b:]
    arms = []; kinds = []
    for k, (stem, ctor) in KINDS.items():
        if stem not in modules or any(d not in modules for d in NEEDS.get(k, [])): continue
        for i, (istem, ictor) in INNERS.items():
            if istem not in modules: continue
            if k.startswith('default_') and i != 'echo': continue
            call = ('run_nc(%s, xs)' if k in NO_CLONE else 'run(%s, xs, cut, true)') % ctor.replace('$i', ictor)
            arms.append('            ("%s", "%s") => %s,' % (k, i, call)); kinds.append((k, i))
    drv = DRV.replace('//@@ARMS@@', '\n'.join(arms))
    i = text.rindex('fn main() {}')
    j = text.index('}', i + len('fn main() {}'))          # the brace closing verus! { .. }
    text = text[:i] + text[i + len('fn main() {}'):j + 1] + drv + text[j + 1:]
    open(out_rs, 'w').write(text)
    return kinds

def hexf(x): return '%016x' % struct.unpack('<Q', struct.pack('<d', x))[0]

def gen_cases(kinds, seed, per_kind=12):
    rnd = random.Random(seed)
    vals = [-3.0, -2.0, -1.5, -1.0, -0.5, 0.0, 0.0, 0.5, 1.0, 1.0, 2.0, 2.5, 3.0, 4.0, 0.1, 0.7, 1e-3, 123.456]
    cases = []
    for k, i in kinds:
        for c in range(per_kind):
            n = max(rnd.randint(1, 7), MIN_N.get(k, 1))
            ln = rnd.randint(1, 3 * n + 10)
            style = rnd.randint(0, 4)
            xs = []; cur = rnd.choice(vals)
            for t in range(ln):
                if style == 0: x = rnd.choice(vals)
                elif style == 1: cur += rnd.choice([-1.0, -0.5, 0.0, 0.5, 1.0]); x = cur
                elif style == 2: x = cur
                elif style == 3: x = rnd.uniform(-5, 5)
                else: x = rnd.choice(vals) if t < ln // 2 else 1.0
                xs.append(abs(x) + 0.5 if (k in POSITIVE or i in POSITIVE) else x)
            cases.append((k, i, n, ln // 2, xs))
    return cases

def validate(all_rs, modules, probe_bin, workdir, seed=1, timeout=600, per_kind=12):
    t0 = time.time()
    workdir = os.path.abspath(workdir); all_rs = os.path.abspath(all_rs); probe_bin = os.path.abspath(probe_bin)
    os.makedirs(workdir, exist_ok=True)
    out_rs = os.path.join(workdir, 'all_exec.rs'); binp = os.path.join(workdir, 'all_exec')
    res = dict(method='verus --no-verify --compile of the generated file with an executable scalar model, replayed against the real crate (probe trace); outputs compared bit for bit',
               bound='per (view, inner view) pair %d streams of at most 3N+10 values, N <= 7, inner views Echo / Sma(2) / Ema(3), one clone_view() mid-stream' % per_kind)
    try:
        kinds = make_exec(all_rs, set(modules), out_rs)
    except Exception as e:
        return dict(res, ok=False, error='exec transformation failed: %s' % e)
    p = subprocess.run('verus %s --no-verify --compile -o %s' % (out_rs, binp), shell=True, capture_output=True, text=True, cwd=workdir, timeout=timeout)
    if p.returncode != 0 or not os.path.exists(binp):
        return dict(res, ok=False, error='executable variant does not compile', tail=(p.stdout + p.stderr)[-1500:])
    cases = gen_cases(kinds, seed, per_kind)
    cf = os.path.join(workdir, 'cases.txt')
    open(cf, 'w').write(''.join('%s %s %d %d %s\n' % (k, i, n, cut, ' '.join(hexf(x) for x in xs)) for k, i, n, cut, xs in cases))
    a = subprocess.run([binp, cf], capture_output=True, text=True, timeout=timeout)
    b = subprocess.run([probe_bin, 'trace', cf], capture_output=True, text=True, timeout=timeout)
    la, lb = a.stdout.strip().split('\n'), b.stdout.strip().split('\n')
    if len(la) != len(cases) or len(lb) != len(cases):
        return dict(res, ok=False, error='trace length mismatch: extracted %d, real %d, cases %d' % (len(la), len(lb), len(cases)), tail=(a.stderr + b.stderr)[-800:])
    # a panic on either side is not compared (debug assertions may be compiled differently; panics are the subject of C15, not of the extraction)
    bad = [dict(case='%s over %s, N=%d' % (c[0], c[1], c[2]), stream=c[4], extracted=x, real=y) for c, x, y in zip(cases, la, lb) if x != y and 'PANIC' not in (x, y)]
    steps = sum(len(c[4]) + 1 for c in cases)
    return dict(res, ok=not bad, cases=len(cases), outputs_compared=steps, pairs=len(kinds), mismatches=bad[:5], n_mismatches=len(bad),
                unsupported=sum(1 for x in la if x == 'UNSUPPORTED'), panics_not_compared=sum(1 for x, y in zip(la, lb) if 'PANIC' in (x, y)), wall_s=round(time.time() - t0, 1))

if __name__ == '__main__':
    import sys
    rep = json.load(open(sys.argv[1] + '.map.json'))
    print(json.dumps(validate(sys.argv[1], rep['modules'], sys.argv[2], sys.argv[3]), indent=1)[:3000])
