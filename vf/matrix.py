#!/usr/bin/env python3
"""detection matrix: every seeded change x every claimed property, on scratch copies of /repo (in parallel)
usage: matrix.py [--jobs 4] [--names C02-A,C03-B] [--props C02,C03]"""
import os, sys, subprocess, json, glob, time, shutil
from concurrent.futures import ThreadPoolExecutor
ROOT = os.path.dirname(os.path.dirname(os.path.abspath(__file__)))
sys.path.insert(0, os.path.join(ROOT, 'vf'))
import claims
def opt(k, d):
    for a in sys.argv[1:]:
        if a.startswith('--%s=' % k): return a.split('=', 1)[1]
    return d
jobs = int(opt('jobs', '4'))
names = opt('names', '')
props = opt('props', '')
sdir = opt('dir', 'seeded')
work = os.environ.get('VERIF_MATRIX_WORK', '/tmp/matrix')
os.makedirs(work, exist_ok=True)
os.makedirs(os.path.join(ROOT, 'gen'), exist_ok=True)
def sh(c, env=None): return subprocess.run(c, shell=True, capture_output=True, text=True, env=env)
muts = [d for d in sorted(glob.glob(os.path.join(ROOT, sdir, '*'))) if os.path.isdir(d) and (not names or os.path.basename(d) in names.split(','))]
plist = props.split(',') if props else sorted(claims.CLAIMS)
def one(d):
    name = os.path.basename(d)
    w = os.path.join(work, name)
    shutil.rmtree(w, ignore_errors=True); os.makedirs(w)
    sh('cp -r /repo/src /repo/Cargo.toml /repo/Cargo.lock /repo/README.md %s/ && mkdir -p %s/benches && cp -r /repo/benches %s/' % (w, w, w))
    r = sh('cd %s && git init -q . && git apply %s/patch.diff' % (w, d))
    if r.returncode != 0: return name, {'_error': 'patch: ' + r.stderr[:200]}
    env = dict(os.environ, VERIF_REPO=w, VERIF_GEN=os.path.join(w, 'gen'), VERIF_EVIDENCE_DIR=os.path.join(w, 'ev'), VERIF_REPLAY_DIR=os.path.join(w, 'replay'),
               VERIF_PROBE_TARGET=os.path.join(w, 'ptarget'), VERIF_THREADS=str(max(2, 16 // jobs)))
    for x in ('gen', 'ev', 'replay'): os.makedirs(os.path.join(w, x), exist_ok=True)
    # the probe crate dir is shared: give every job its own copy
    shutil.copytree(os.path.join(ROOT, 'probe'), os.path.join(w, 'probe'), ignore=shutil.ignore_patterns('target'))
    env['VERIF_PROBE_DIR'] = os.path.join(w, 'probe')
    shutil.copytree(os.path.join(ROOT, 'kani'), os.path.join(w, 'kani'), ignore=shutil.ignore_patterns('target'))
    env['VERIF_KANI_DIR'] = os.path.join(w, 'kani')
    row = {}
    mylist = sorted(set((name.split('-')[0] if x == 'target' else x) for x in plist))
    for pid in mylist:
        t0 = time.time()
        c = sh('cd %s && python3 vf/driver.py %s' % (ROOT, pid), env=env)
        kind = 'VIOL' if c.returncode == 1 else ('ok' if c.returncode == 0 else 'MACH')
        inp = 'input' if 'FAILING-INPUT' in c.stdout else ('nofi' if 'no-failing-input-found' in c.stdout else '')
        row[pid] = dict(rc=c.returncode, kind=kind, inp=inp, s=round(time.time() - t0), lines=[l[:400] for l in c.stdout.split('\n') if l.startswith(('FAILED', 'FAILING', 'MACHINERY', 'VIOLATION'))][:5])
        json.dump(row, open(os.path.join(ROOT, 'gen', 'matrix_partial_%s.json' % name), 'w'))
    shutil.rmtree(w, ignore_errors=True)
    print(name, ' '.join('%s:%s%s' % (p, row[p]['kind'], ('/' + row[p]['inp']) if row[p]['inp'] else '') for p in mylist), flush=True)
    return name, row
with ThreadPoolExecutor(jobs) as ex:
    res = dict(ex.map(one, muts))
out = os.path.join(ROOT, 'gen', 'matrix_%s.json' % sdir)
old = json.load(open(out)) if os.path.exists(out) else {}
old.update(res)
json.dump(old, open(out, 'w'), indent=1)
