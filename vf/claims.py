# properties currently claimed (id -> level text / technique); everything else is listed under not_applicable
CLAIMS = {
}
NOT_APPLICABLE = {}
