# properties currently claimed: id -> level text / technique / the view modules the property depends on
# (obligations tagged with the id are *deciding*; any other failed obligation in these modules is a *prerequisite*:
#  the proof of the property is then unavailable and the bounded search on the real crate decides, see DESIGN.md 2.5)

ALL = '*'
WINDOWED = ['sma', 'cumulative', 'min', 'max', 'welford_online', 'hl_normalizer', 'roc', 'binary_entropy',
            'variance_stabilizing_transformation', 'vsct']
EHLERS = ['super_smoother', 'roofing_filter', 'laguerre_filter', 'laguerre_rsi', 'cyber_cycle', 'trend_flex', 're_flex',
          'ehlers_fisher_transform', 'polarized_fractal_efficiency']

CLAIMS = {
    'C01': dict(views=ALL, technique='Verus contracts on every update/last: forward-once (E1), silent-inner frame (E2), own-step as a function of own state and inner output only (E3 signature), gating of combinators; generic chain lemma for an arbitrary inner view type',
                text='Proof for all inner view types at once (the inner view is a type parameter with only the trait contract known), all window lengths and inputs. Bit-identity is claimed under the scalar model: both sides perform the same operations on equal operands.'),
    'C02': dict(views=WINDOWED + ['echo'], technique='Verus: window invariants (aggregate == definition recomputed from the abstract window), wpush own-step, history lemma',
                text='Proof: update refines "push into the window of the N most recent values" and every aggregate equals its definition over that window, for all N, all histories.'),
    'C03': dict(views=WINDOWED + ['center_of_gravity', 'correlation_trend_indicator', 'noise_elimination_technology', 'rsi', 'my_rsi', 'alma', 'polarized_fractal_efficiency', 'echo'],
                technique='Verus lemmas over the contracts: the abstract own state after >= K delivered values is a function of the last K values',
                text='Proof by induction over histories that the abstract window (and the predecessor for change-based views) is determined by the last K values; outputs are functions of that state by the out contracts.'),
    'C04': dict(views=['sma', 'ema', 'alma', 'echo'], technique='Verus: refinement of the mean / EMA recursion / Gaussian-weighted mean, plus averaging lemmas',
                text='Proof that Sma/Ema/Alma refine their defining formulas and that these are genuine averages (interval, constant, monotone, affine).'),
    'C05': dict(views=['rsi', 'my_rsi', 'echo'], technique='Verus: gains/losses window invariants, RSI identity, corollary lemmas',
                text='Proof that Rsi == 100G/(G+L) and MyRSI == (G-L)/(G+L) over the N most recent changes, for all N and histories.'),
    'C06': dict(views=['center_of_gravity', 'correlation_trend_indicator', 'noise_elimination_technology', 'echo'], technique='Verus: loop invariants relating the real loops to recursive sums (Pearson computational form, Kendall pair sums, weighted sums)',
                text='Proof that the three indicators equal their defining sums over the window.'),
    'C07': dict(views=['rsi', 'my_rsi', 'laguerre_rsi', 'hl_normalizer', 'noise_elimination_technology', 'binary_entropy', 'ehlers_fisher_transform', 'welford_online', 'welford_rolling',
                       'drawdown', 'tanh', 'gte', 'lte', 'min', 'max', 'sma', 'center_of_gravity', 'correlation_trend_indicator', 'vsct', 'alma', 'echo'],
                technique='Verus: range postconditions / invariants on the real last()/update(), exact-arithmetic bounds',
                text='Proof of the range clauses listed in the evidence (incl. CTI in [-1,1] by Cauchy-Schwarz, |Vsct| <= (N-1)/sqrt(N) by Samuelson, Min <= Sma/Alma <= Max); the PFE clause is a known finding and is covered by the bounded search only.'),
    'C08': dict(views=ALL, technique='Verus: readiness clauses (last reports a value exactly when the specification does; a silent inner view leaves the answer unchanged), preconditions of / sqrt ln discharged from the guards in the code, warm-up lemmas',
                text='Proof that every partial operation is guarded (no NaN/inf in exact arithmetic), that readiness is monotone, and of the documented warm-up lengths.'),
    'C09': dict(views=['ema', 'laguerre_filter', 'super_smoother', 'roofing_filter', 'cyber_cycle', 'trend_flex', 're_flex', 'laguerre_rsi', 'ehlers_fisher_transform', 'echo'],
                technique='Verus: coefficient contracts (pole locations / Jury conditions) for every window length, one-step contraction lemmas, whole-history lemmas by induction (geometric decay over a common tail, bounded input bounded output)',
                text='Proof of pole locations for symbolic N, one-step contractions, and over whole histories: distance after a common tail of m values == c^m x initial distance with 0 <= c < 1 (Ema, SuperSmoother Lyapunov form, Laguerre first stage, Fisher); bounded-input-bounded-output over whole histories for Ema, LaguerreFilter, SuperSmoother, RoofingFilter and CyberCycle (bounds fixed by coefficients and input bound); stream-length independent output bounds of EFT, LaguerreRSI, TrendFlex, ReFlex.'),
    'C10': dict(views=['sma', 'ema', 'alma', 'cumulative', 'laguerre_filter', 'super_smoother', 'roofing_filter', 'cyber_cycle', 'echo'],
                technique='Verus lemmas: own-step and out are linear maps of (state, input)',
                text='Proof of one-step superposition and of the induction over whole histories for all eight linear views.'),
    'C11': dict(views=EHLERS + ['echo'], technique='Verus: update refines the difference equations written from the property text; coefficient contracts on constructors',
                text='Proof that every update equals one step of the stated equations, for all N and inputs.'),
    'C12': dict(views=ALL, technique='Verus lemmas over closed forms / own-step: scale, offset and sign equivariance',
                text='Proof of every clause of the statement at window level and at whole-history level (views over Echo).'),
    'C13': dict(views=['welford_rolling', 'drawdown', 'ln_return', 'echo'], technique='Verus: rolling own-step contracts + history lemmas against batch definitions',
                text='Proof that the rolling state equals the batch statistic of the whole history.'),
    'C14': dict(views=['add', 'subtract', 'multiply', 'divide', 'tanh', 'gte', 'lte', 'echo', 'constant'], technique='Verus: out is a function of the children\'s current outputs only; Kani loop-free bit-exact proofs for selection/add/sub',
                text='Proof of pointwise statelessness; bit-exactness by complete loop-free CBMC proofs where cheap.'),
    'C15': dict(views=ALL, technique='Verus built-in safety obligations (index, unwrap, arithmetic overflow/underflow, assert!/debug_assert!) on every extracted function under the representation invariants',
                text='Proof of panic-freedom for every view, every accepted window length, every input history (in the scalar model).'),
    'C17': dict(views=ALL, technique='Verus: update is a function of (abstract state, input) by contract; last(&self) has a functional contract over an immutable borrow; structural scan for interior mutability; #[derive(Clone)] expanded field-wise (M4) and proved to preserve the abstract state',
                text='Proof of determinism, purity of last(), and that a derived clone is a view in the same abstract state that continues like the original (Vec/VecDeque::clone of scalars trusted to yield an equal sequence).'),
    'C18': dict(views=ALL, technique='Verus: buffer-length invariants generated for every Vec/VecDeque field found in /repo',
                text='Proof that every buffer length is bounded by a function of the window length after every update.'),
}
NOT_APPLICABLE = {}
