// TRUSTED SHIM (every item here is an assumption; the list is copied into each evidence file).
// Scalar model "M-real": the generic scalar `T: Float` of the crate is monomorphised to `R`, a wrapper of
// Verus' mathematical `real`; + - * / neg and comparisons are exact real arithmetic; partial operations
// (`/`, `sqrt`, `ln`) carry preconditions instead of producing NaN/inf.
#![feature(allocator_api)]
#![allow(unused)]
use vstd::prelude::*;
verus! {
pub mod shim {
use vstd::prelude::*;
use vstd::std_specs::ops::*;
use vstd::std_specs::cmp::*;
use std::collections::VecDeque;
use vstd::view::View as SpecView;

#[derive(Clone, Copy)]
pub struct R { pub g: Ghost<real> }
pub type T = R;
pub const PI: f64 = 3.141592653589793f64;

pub open spec fn mk(x: real) -> R { R { g: Ghost(x) } }

pub uninterp spec fn f64_real(x: f64) -> real;
pub uninterp spec fn r_exp(x: real) -> real;
pub uninterp spec fn r_cos(x: real) -> real;
pub uninterp spec fn r_sin(x: real) -> real;
pub uninterp spec fn r_ln(x: real) -> real;
pub uninterp spec fn r_log2(x: real) -> real;
pub uninterp spec fn r_tanh(x: real) -> real;
pub uninterp spec fn r_sqrt(x: real) -> real;
pub uninterp spec fn r_powi(x: real, n: int) -> real;
pub uninterp spec fn r_minv() -> real;
pub uninterp spec fn r_maxv() -> real;
pub uninterp spec fn r_pi() -> real;
pub uninterp spec fn r_epsilon() -> real;
pub uninterp spec fn r_min_positive() -> real;

pub trait ToR { spec fn to_real(self) -> real; }
impl ToR for usize { open spec fn to_real(self) -> real { self as int as real } }
impl ToR for f64 { open spec fn to_real(self) -> real { f64_real(self) } }

// real division, named so that lemmas can trigger on it
pub open spec fn rdiv(a: real, b: real) -> real { a / b }
pub open spec fn r_abs(x: real) -> real { if x >= 0real { x } else { -x } }
pub open spec fn r_clamp(x: real, lo: real, hi: real) -> real { if x < lo { lo } else if x > hi { hi } else { x } }
pub open spec fn r_signum(x: real) -> real { if x > 0real { 1real } else if x < 0real { -1real } else { r_signum0() } }
// value of signum at 0: Rust's f64::signum(+0.0) is 1, signum(-0.0) is -1; left unspecified (+1 or -1).
pub uninterp spec fn r_signum0() -> real;

impl R {
    pub open spec fn v(self) -> real { self.g@ }
    #[verifier::external_body] pub fn zero() -> (r: R) ensures r.v() == 0real { unimplemented!() }
    #[verifier::external_body] pub fn one() -> (r: R) ensures r.v() == 1real { unimplemented!() }
    #[verifier::external_body] pub fn min_value() -> (r: R) ensures r.v() == r_minv() { unimplemented!() }
    #[verifier::external_body] pub fn max_value() -> (r: R) ensures r.v() == r_maxv() { unimplemented!() }
    #[verifier::external_body] pub fn from<N: ToR>(n: N) -> (r: Option<R>) ensures r.is_some(), r.unwrap().v() == n.to_real() { unimplemented!() }
    #[verifier::external_body] pub fn is_finite(self) -> (b: bool) ensures b { unimplemented!() }
    #[verifier::external_body] pub fn is_nan(self) -> (b: bool) ensures !b { unimplemented!() }
    #[verifier::external_body] pub fn abs(self) -> (r: R) ensures r.v() == r_abs(self.v()) { unimplemented!() }
    #[verifier::external_body] pub fn signum(self) -> (r: R) ensures r.v() == r_signum(self.v()) { unimplemented!() }
    #[verifier::external_body] pub fn powi(self, n: i32) -> (r: R) ensures r.v() == r_powi(self.v(), n as int) { unimplemented!() }
    #[verifier::external_body] pub fn sqrt(self) -> (r: R) requires self.v() >= 0real ensures r.v() == r_sqrt(self.v()) { unimplemented!() }
    #[verifier::external_body] pub fn exp(self) -> (r: R) ensures r.v() == r_exp(self.v()) { unimplemented!() }
    #[verifier::external_body] pub fn cos(self) -> (r: R) ensures r.v() == r_cos(self.v()) { unimplemented!() }
    #[verifier::external_body] pub fn sin(self) -> (r: R) ensures r.v() == r_sin(self.v()) { unimplemented!() }
    #[verifier::external_body] pub fn ln(self) -> (r: R) requires self.v() > 0real ensures r.v() == r_ln(self.v()) { unimplemented!() }
    #[verifier::external_body] pub fn log2(self) -> (r: R) ensures r.v() == r_log2(self.v()) { unimplemented!() }
    #[verifier::external_body] pub fn tanh(self) -> (r: R) ensures r.v() == r_tanh(self.v()) { unimplemented!() }
    #[verifier::external_body] pub fn max(self, o: R) -> (r: R) ensures r.v() == (if self.v() >= o.v() { self.v() } else { o.v() }) { unimplemented!() }
    #[verifier::external_body] pub fn min(self, o: R) -> (r: R) ensures r.v() == (if self.v() <= o.v() { self.v() } else { o.v() }) { unimplemented!() }
    // further num::Float methods a maintainer may reach for (so that such code stays inside the supported subset)
    #[verifier::external_body] pub fn epsilon() -> (r: R) ensures r.v() == r_epsilon() { unimplemented!() }
    #[verifier::external_body] pub fn min_positive_value() -> (r: R) ensures r.v() == r_min_positive() { unimplemented!() }
    #[verifier::external_body] pub fn is_normal(self) -> (b: bool) ensures b == (self.v() != 0real) { unimplemented!() }
    #[verifier::external_body] pub fn is_sign_negative(self) -> (b: bool) ensures self.v() < 0real ==> b, self.v() > 0real ==> !b { unimplemented!() }
    #[verifier::external_body] pub fn is_sign_positive(self) -> (b: bool) ensures self.v() > 0real ==> b, self.v() < 0real ==> !b { unimplemented!() }
    #[verifier::external_body] pub fn recip(self) -> (r: R) requires self.v() != 0real ensures r.v() == rdiv(1real, self.v()) { unimplemented!() }
    #[verifier::external_body] pub fn mul_add(self, a: R, b: R) -> (r: R) ensures r.v() == self.v() * a.v() + b.v() { unimplemented!() }
    #[verifier::external_body] pub fn clamp(self, lo: R, hi: R) -> (r: R) requires lo.v() <= hi.v() ensures r.v() == r_clamp(self.v(), lo.v(), hi.v()) { unimplemented!() }
}

impl AddSpecImpl<R> for R { open spec fn obeys_add_spec() -> bool { true } open spec fn add_req(self, rhs: R) -> bool { true }
    open spec fn add_spec(self, rhs: R) -> R { R { g: Ghost(self.v() + rhs.v()) } } }
impl std::ops::Add for R { type Output = R; #[verifier::external_body] fn add(self, rhs: R) -> R { unimplemented!() } }
impl SubSpecImpl<R> for R { open spec fn obeys_sub_spec() -> bool { true } open spec fn sub_req(self, rhs: R) -> bool { true }
    open spec fn sub_spec(self, rhs: R) -> R { R { g: Ghost(self.v() - rhs.v()) } } }
impl std::ops::Sub for R { type Output = R; #[verifier::external_body] fn sub(self, rhs: R) -> R { unimplemented!() } }
impl MulSpecImpl<R> for R { open spec fn obeys_mul_spec() -> bool { true } open spec fn mul_req(self, rhs: R) -> bool { true }
    open spec fn mul_spec(self, rhs: R) -> R { R { g: Ghost(self.v() * rhs.v()) } } }
impl std::ops::Mul for R { type Output = R; #[verifier::external_body] fn mul(self, rhs: R) -> R { unimplemented!() } }
impl DivSpecImpl<R> for R { open spec fn obeys_div_spec() -> bool { true } open spec fn div_req(self, rhs: R) -> bool { rhs.v() != 0real }
    open spec fn div_spec(self, rhs: R) -> R { R { g: Ghost(rdiv(self.v(), rhs.v())) } } }
impl std::ops::Div for R { type Output = R; #[verifier::external_body] fn div(self, rhs: R) -> R { unimplemented!() } }
impl NegSpecImpl for R { open spec fn obeys_neg_spec() -> bool { true } open spec fn neg_req(self) -> bool { true }
    open spec fn neg_spec(self) -> R { R { g: Ghost(-self.v()) } } }
impl std::ops::Neg for R { type Output = R; #[verifier::external_body] fn neg(self) -> R { unimplemented!() } }
impl PartialEqSpecImpl for R { open spec fn obeys_eq_spec() -> bool { true } open spec fn eq_spec(&self, other: &R) -> bool { self.v() == other.v() } }
impl PartialEq for R { #[verifier::external_body] fn eq(&self, other: &R) -> bool { unimplemented!() } }
impl PartialOrdSpecImpl for R { open spec fn obeys_partial_cmp_spec() -> bool { true }
    open spec fn partial_cmp_spec(&self, other: &R) -> Option<std::cmp::Ordering> {
        if self.v() < other.v() { Some(std::cmp::Ordering::Less) } else if self.v() > other.v() { Some(std::cmp::Ordering::Greater) } else { Some(std::cmp::Ordering::Equal) } } }
impl PartialOrd for R { #[verifier::external_body] fn partial_cmp(&self, other: &R) -> Option<std::cmp::Ordering> { unimplemented!() } }

pub assume_specification<T, A: std::alloc::Allocator> [VecDeque::<T, A>::front] (q: &VecDeque<T, A>) -> (r: Option<&T>)
    ensures r == (if q@.len() > 0 { Some(&q@[0]) } else { None::<&T> });
pub assume_specification<T, A: std::alloc::Allocator> [VecDeque::<T, A>::back] (q: &VecDeque<T, A>) -> (r: Option<&T>)
    ensures r == (if q@.len() > 0 { Some(&q@[q@.len() - 1]) } else { None::<&T> });
pub assume_specification<T, A: std::alloc::Allocator> [VecDeque::<T, A>::get] (q: &VecDeque<T, A>, i: usize) -> (r: Option<&T>)
    ensures r == (if i < q@.len() { Some(&q@[i as int]) } else { None::<&T> });
pub assume_specification<T, A: std::alloc::Allocator> [VecDeque::<T, A>::is_empty] (q: &VecDeque<T, A>) -> (r: bool)
    ensures r == (q@.len() == 0);
pub assume_specification<'a, T: Copy> [Option::<&'a T>::copied] (o: Option<&'a T>) -> (r: Option<T>)
    ensures r == (match o { Some(x) => Some(*x), None => None::<T> });

// R2: stand-ins for `q.iter().copied().min_by(partial_cmp)` / `max_by`
pub open spec fn is_min_of(m: T, s: Seq<T>) -> bool {
    (forall|i: int| 0 <= i < s.len() ==> m.v() <= #[trigger] s[i].v()) && (exists|i: int| 0 <= i < s.len() && m == s[i])
}
pub open spec fn is_max_of(m: T, s: Seq<T>) -> bool {
    (forall|i: int| 0 <= i < s.len() ==> m.v() >= #[trigger] s[i].v()) && (exists|i: int| 0 <= i < s.len() && m == s[i])
}
#[verifier::external_body]
pub fn deque_min(q: &VecDeque<T>) -> (r: Option<T>)
    ensures q@.len() == 0 ==> r.is_none(), q@.len() > 0 ==> r.is_some() && is_min_of(r.unwrap(), q@)
{ unimplemented!() }
#[verifier::external_body]
pub fn deque_max(q: &VecDeque<T>) -> (r: Option<T>)
    ensures q@.len() == 0 ==> r.is_none(), q@.len() > 0 ==> r.is_some() && is_max_of(r.unwrap(), q@)
{ unimplemented!() }

// R9: a constructor whose own assert! fires panics, i.e. it does not accept its arguments; the properties quantify over accepted arguments only
#[verifier::external_body]
pub fn ctor_reject() ensures false { panic!("constructor rejected its arguments") }

// std's Clone for buffers of Copy scalars: an equal sequence in a fresh allocation (trusted)
#[verifier::external_body] pub fn deque_clone(q: &VecDeque<T>) -> (r: VecDeque<T>) ensures r@ == q@ { q.clone() }
#[verifier::external_body] pub fn vec_clone(q: &Vec<T>) -> (r: Vec<T>) ensures r@ == q@ { q.clone() }
#[verifier::external_body]
pub fn vec_last(v: &Vec<T>) -> (r: Option<T>)
    ensures r == (if v@.len() > 0 { Some(v@[v@.len() - 1]) } else { None::<T> })
{ unimplemented!() }

// ---- axioms about the library functions (textbook facts; each is an assumption) ----
pub broadcast axiom fn ax_exp_pos(x: real) ensures #[trigger] r_exp(x) > 0real;
pub broadcast axiom fn ax_exp_neg(x: real) ensures x < 0real ==> #[trigger] r_exp(x) < 1real;
pub broadcast axiom fn ax_exp_nonpos(x: real) ensures x <= 0real ==> #[trigger] r_exp(x) <= 1real;
pub broadcast axiom fn ax_cos_sin(x: real) ensures #[trigger] r_cos(x) * r_cos(x) + r_sin(x) * r_sin(x) == 1real;
pub broadcast axiom fn ax_cos_bound(x: real) ensures -1real <= #[trigger] r_cos(x) <= 1real;
pub broadcast axiom fn ax_sin_bound(x: real) ensures -1real <= #[trigger] r_sin(x) <= 1real;
pub axiom fn ax_cos_sin_q1(x: real) ensures 0real < x && x * 2real < r_pi() ==> r_cos(x) > 0real && r_sin(x) > 0real;
// pi/2 < x < 3pi/2  ==>  cos x < 0
pub axiom fn ax_cos_q23(x: real) ensures r_pi() < x * 2real && x * 2real < 3real * r_pi() ==> r_cos(x) < 0real;
pub axiom fn ax_pi() ensures 31415real < r_pi() * 10000real < 31416real, f64_real(PI) == r_pi();
pub broadcast axiom fn ax_tanh(x: real) ensures -1real < #[trigger] r_tanh(x) < 1real;
pub broadcast axiom fn ax_sqrt(x: real) ensures x >= 0real ==> #[trigger] r_sqrt(x) >= 0real && r_sqrt(x) * r_sqrt(x) == x;
pub broadcast axiom fn ax_powi2(x: real) ensures #[trigger] r_powi(x, 2) == x * x;
pub axiom fn ax_ln_mono(x: real, y: real) ensures 0real < x <= y ==> r_ln(x) <= r_ln(y);
pub axiom fn ax_ln_inv(x: real) ensures x > 0real ==> r_ln(1real / x) == -r_ln(x);
pub axiom fn ax_ln_one() ensures r_ln(1real) == 0real;
pub axiom fn ax_minmax() ensures r_minv() < 0real < r_maxv();
pub broadcast axiom fn ax_epsilon() ensures 0real < #[trigger] r_epsilon() < 1real;
pub broadcast axiom fn ax_min_positive() ensures 0real < #[trigger] r_min_positive() < 1real;
pub axiom fn ax_signum0() ensures r_signum0() == 1real || r_signum0() == -1real;
// binary entropy H(p) = -(p log2 p + (1-p) log2(1-p)) lies in [0,1] for 0 < p < 1; and 0*log2(0) = 0 (the code patches NaN to 0)
pub axiom fn ax_entropy(p: real) ensures 0real < p < 1real ==> 0real <= -(p * r_log2(p) + (1real - p) * r_log2(1real - p)) <= 1real;
pub axiom fn ax_log2_one() ensures r_log2(1real) == 0real;
pub broadcast group group_shim { ax_epsilon, ax_min_positive, ax_exp_pos, ax_exp_neg, ax_exp_nonpos, ax_cos_bound, ax_sin_bound, ax_tanh, ax_sqrt, ax_powi2 }
//@@LITERAL_AXIOMS@@

// ---- the crate's trait `View`, with its contract ----
pub trait View: Sized {
    type S;                                              // abstract state of the whole subtree
    spec fn abs(&self) -> Self::S;
    spec fn inv(&self) -> bool;                          // representation invariant
    spec fn step(s: Self::S, x: T) -> Self::S;           // one update as a mathematical function
    spec fn out(s: Self::S) -> Option<T>;                // what last() reports
    spec fn accepts(s: Self::S, x: T) -> bool;           // stated input domain (and counter fuel)

    fn update(&mut self, val: T)
        requires
            old(self).inv(),
            Self::accepts(old(self).abs(), val),   // stated input domain (a separate line: a failure here is a domain question, not a panic)
        ensures final(self).inv(), final(self).abs() == Self::step(old(self).abs(), val);
    fn last(&self) -> (r: Option<T>)
        requires self.inv(),
        ensures r == Self::out(self.abs());
    // M4: what `#[derive(Clone)]` generates for the view (field-wise clone); the contract of Clone for views
    fn clone_view(&self) -> (r: Self)
        requires self.inv(),
        ensures r.inv(), r.abs() == self.abs();
}

// history level: fold of `step` / `accepts` over a sequence of raw inputs
pub open spec fn run<V: View>(s: V::S, h: Seq<T>) -> V::S decreases h.len() {
    if h.len() == 0 { s } else { V::step(run::<V>(s, h.drop_last()), h.last()) }
}
pub open spec fn run_ok<V: View>(s: V::S, h: Seq<T>) -> bool decreases h.len() {
    if h.len() == 0 { true } else { run_ok::<V>(s, h.drop_last()) && V::accepts(run::<V>(s, h.drop_last()), h.last()) }
}
// generic verified driver: any sequence of real `update` calls is `run`
pub fn drive<V: View>(v: &mut V, xs: &Vec<T>)
    requires old(v).inv(), run_ok::<V>(old(v).abs(), xs@),
    ensures final(v).inv(), final(v).abs() == run::<V>(old(v).abs(), xs@),
{
    let mut i: usize = 0;
    while i < xs.len()
        invariant 0 <= i <= xs.len(), v.inv(), v.abs() == run::<V>(old(v).abs(), xs@.take(i as int)),
            run_ok::<V>(old(v).abs(), xs@),
        decreases xs.len() - i,
    {
        proof {
            lemma_run_ok_prefix::<V>(old(v).abs(), xs@, i as int + 1);
            assert(xs@.take(i as int + 1).drop_last() =~= xs@.take(i as int));
        }
        v.update(xs[i]);
        i += 1;
    }
    proof { assert(xs@.take(xs.len() as int) =~= xs@); }
}
pub proof fn lemma_run_ok_prefix<V: View>(s: V::S, h: Seq<T>, k: int)
    requires run_ok::<V>(s, h), 0 <= k <= h.len(),
    ensures run_ok::<V>(s, h.take(k)),
    decreases h.len(),
{
    if k == h.len() { assert(h.take(k) =~= h); } else {
        lemma_run_ok_prefix::<V>(s, h.drop_last(), k);
        assert(h.drop_last().take(k) =~= h.take(k));
    }
}
} // mod shim
//@@MODULES@@
fn main() {}
}
