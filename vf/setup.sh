#!/bin/sh
# offline setup: nothing to download; warm the verus cache and build the probe against /repo
cd "$(dirname "$0")/.."
mkdir -p gen evidence replay
python3 vf/extract.py gen/all.rs >/dev/null 2>&1 || true
exit 0
