#!/usr/bin/env python3
"""Mechanical extraction of the real functions of /repo/src into one Verus file, with the contracts of
vf/contracts/*.vc injected at fixed anchors.  Re-run on every check; nothing here is hand-copied code.

What is dropped : doc/line comments, `use` lines, #[derive], #[getset], #[inline], #[cfg(test)] modules,
                  `Default` impls, the plot/test_data modules.
What is changed : rules M1-M3, R1-R5 (see RULES below / DESIGN.md 2.1).  Function bodies are otherwise
                  copied byte for byte; `fidelity()` re-checks that on every run.
Exit status 2   : unsupported construct / lost anchor (never a property verdict).
"""
import re, glob, os, sys, json, hashlib

VF = os.path.dirname(os.path.abspath(__file__))
REPO = os.environ.get('VERIF_REPO', '/repo')

class ExtractError(Exception):
    pass

RECORD_LOOPS = None
try:
    LOOP_HEADERS = json.load(open(os.path.join(VF, 'contracts', 'loop_headers.json')))
except Exception:
    LOOP_HEADERS = {}

VIEW_NAMES = ['Echo', 'Constant', 'Add', 'Subtract', 'Multiply', 'Divide', 'Tanh', 'GTE', 'LTE', 'Drawdown', 'LnReturn',
              'WelfordRolling', 'Alma', 'BinaryEntropy', 'CenterOfGravity', 'CorrelationTrendIndicator', 'Cumulative',
              'CyberCycle', 'EhlersFisherTransform', 'Ema', 'HLNormalizer', 'LaguerreFilter', 'LaguerreRSI', 'Max', 'Min',
              'MyRSI', 'NoiseEliminationTechnology', 'PolarizedFractalEfficiency', 'ReFlex', 'Roc', 'RoofingFilter', 'Rsi',
              'Sma', 'SuperSmoother', 'TrendFlex', 'Vst', 'Vsct', 'WelfordOnline']

# ------------------------------------------------------------------ lexical helpers
def strip_comments(s):
    """remove // and /* */ comments, respecting string and char literals"""
    out = []
    i, n = 0, len(s)
    while i < n:
        c = s[i]
        if c == '"':
            j = i + 1
            while j < n and s[j] != '"':
                j += 2 if s[j] == '\\' else 1
            out.append(s[i:j + 1]); i = j + 1
        elif c == "'" and i + 2 < n and (s[i + 1] == '\\' or s[i + 2] == "'"):
            j = i + 1
            while j < n and s[j] != "'":
                j += 2 if s[j] == '\\' else 1
            out.append(s[i:j + 1]); i = j + 1
        elif s.startswith('//', i):
            j = s.find('\n', i)
            if j < 0: j = n
            i = j
        elif s.startswith('/*', i):
            j = s.find('*/', i)
            i = n if j < 0 else j + 2
        else:
            out.append(c); i += 1
    return ''.join(out)

def match_close(s, i, open_c='{', close_c='}'):
    """s[i] == open_c ; return index of the matching close, skipping strings/chars"""
    assert s[i] == open_c, (s[i - 20:i + 20])
    depth, n = 0, len(s)
    while i < n:
        c = s[i]
        if c == '"':
            i += 1
            while i < n and s[i] != '"':
                i += 2 if s[i] == '\\' else 1
        elif c == "'" and i + 2 < n and (s[i + 1] == '\\' or s[i + 2] == "'"):
            i += 1
            while i < n and s[i] != "'":
                i += 2 if s[i] == '\\' else 1
        elif c == open_c:
            depth += 1
        elif c == close_c:
            depth -= 1
            if depth == 0:
                return i
        i += 1
    raise ExtractError('unbalanced braces')

def top_items(s):
    """split text into (header, body) for every top-level `header { body }`; `;`-terminated items are dropped"""
    items, i, start, n = [], 0, 0, len(s)
    while i < n:
        c = s[i]
        if c == ';':
            start = i + 1
        elif c == '"':
            i = s.index('"', i + 1)
        elif c == '{':
            j = match_close(s, i)
            items.append((s[start:i].strip(), s[i + 1:j]))
            start = j + 1
            i = j
        i += 1
    return items

# ------------------------------------------------------------------ rewrite rules
RULES = {
    'M1': 'generic scalar T: Float monomorphised to the model scalar (type T = R)',
    'M2': 'private struct fields made pub',
    'M3': '#[getset(get_copy = "pub")] field -> generated getter `pub fn f(&self) -> (r: Ty) ensures r == self.f`',
    'R1': 'for (i, v) in Q.iter().enumerate() { B }  ->  for i in 0..Q.len() { let v = &Q[i]; B }',
    'R2': 'Q.iter()[.copied()].min_by/max_by(partial_cmp closure)  ->  deque_min(&Q) / deque_max(&Q) (trusted helper contract)',
    'R3': 'for (i, v) in S.iter_mut().enumerate().take(n).skip(3) { *v = E }  ->  let r3_end = min(n, S.len()); for i in 3..r3_end { S[i] = E }',
    'R4': 'debug_assert_ne!(a, b, m) -> debug_assert!(a != b, m)',
    'R5': 'float literals inside T::from(..) get one axiom each (lit == its decimal value); std::f64::consts::PI -> shim const PI',
    'R7': 'OPT.map(|v| { B })  ->  match OPT { Some(v) => Some({ B }), None => None }',
    'R8': 'Q.get(i) >= P.get(i) on Option<&T>  ->  *Q.get(i).unwrap() >= *P.get(i).unwrap() (equal when both are Some; the unwraps become obligations)',
    'R9': 'in constructors: assert!(c, msg) -> if !(c) { ctor_reject(); }  (a constructor that panics has not accepted its arguments; ctor_reject() never returns)',
    'R10': 'for [&]v in Q.iter() { B }  ->  for r10_i in 0..Q.len() { let v = [&]Q[r10_i]; B }',
    'R11': 'for x in (A..B).rev() { S }  ->  for r11_k in A..B { let x = B - 1 - (r11_k - A); S }   (and (A..=B).rev() -> A..=B with x = B - (r11_k - A))',
    'R12': 'a private helper method without a contract and without `return` is inlined at its call sites: f(a, b) -> { let r12_0 = (a); let r12_1 = (b); let p = r12_0; let q = r12_1; BODY } (modular verification cannot see through an uncontracted call)',
    'M5': 'impl Default for X<T, Echo<T>> { fn default() -> Self { B } } is kept as an inherent constructor `default()` of X<Echo> with the constructor contract',
    'M4': '#[derive(Clone)] is expanded to the field-wise clone it generates (view fields: clone_view, Copy scalars: copy, Vec/VecDeque of scalars: trusted deque_clone/vec_clone); a hand-written Clone impl is left unverified and reported',
    'R13': 'guard-style early returns `if c { return e; }` of an inlined helper become `if c { e } else { rest }`; `let x = match e { Some(p) => p, None => return }; rest` becomes `match e { Some(x) => { rest } None => {} }`',
    'L1': 'local variables renamed (same let-bindings in the same order, fresh names): the contract text of the function follows the rename',
    'F1': 'a private struct field was renamed (same field types in the same order): the contract text follows the rename',
    'R6': 'Vec::last().copied() -> same call on a shim helper vec_last(&v) (contract: last element or None)',
    'M6': 'const NAME: f64|usize|.. = LITERAL; (module level or in an impl block) is folded into its uses NAME / Self::NAME and the item dropped',
    'P1': 'function parameters renamed (same number of parameters, fresh names): the contract text of the function follows the rename',
    'R15': 'let mut i = A; while i < B { S; i += 1; }  ->  for i in A..B { S }   (only if S neither assigns i nor contains continue/break/return, B does not mention i, and i is not read after the loop)',
    'R14': 'PAT => return [e],  ->  PAT => { return [e]; },   (a return in match-arm position becomes a block)',
}

def rewrite_body(s, applied):
    def sub(rule, pat, rep, s, flags=0):
        s2, k = re.subn(pat, rep, s, flags=flags)
        if k: applied.add(rule)
        return s2
    s = sub('R1', r'for \((\w+), (\w+)\) in (self\.\w+)\.iter\(\)\.enumerate\(\) \{', r'for \1 in 0..\3.len() { let \2 = &\3[\1];', s)
    s = sub('R2', r'self\s*\.(\w+)\s*\.iter\(\)\s*\.copied\(\)\s*\.min_by\(\|a, b\| a\.partial_cmp\(b\)\.expect\("Can compare elements"\)\)', r'deque_min(&self.\1)', s)
    s = sub('R2', r'self\s*\.(\w+)\s*\.iter\(\)\s*\.copied\(\)\s*\.max_by\(\|a, b\| a\.partial_cmp\(b\)\.expect\("Can compare elements"\)\)', r'deque_max(&self.\1)', s)
    s = sub('R2', r'\*self\s*\.(\w+)\s*\.iter\(\)\s*\.max_by\(\|x, y\| x\.partial_cmp\(y\)\.unwrap_or\(Ordering::Equal\)\)\s*\.unwrap\(\)', r'deque_max(&self.\1).unwrap()', s)
    s = sub('R2', r'\*self\s*\.(\w+)\s*\.iter\(\)\s*\.min_by\(\|x, y\| x\.partial_cmp\(y\)\.unwrap_or\(Ordering::Equal\)\)\s*\.unwrap\(\)', r'deque_min(&self.\1).unwrap()', s)
    s = sub('R3', r'for \(i, v\) in self\s*\.smooth\s*\.iter_mut\(\)\s*\.enumerate\(\)\s*\.take\(self\.vals\.len\(\)\)\s*\.skip\(3\)\s*\{\s*\*v = ',
            'let r3_end = if self.vals.len() < self.smooth.len() { self.vals.len() } else { self.smooth.len() };\n        for i in 3..r3_end {\n            self.smooth[i] = ', s)
    s = sub('R4', r'debug_assert_ne!\((\w+), ([^,]+), ', r'debug_assert!(\1 != \2, ', s)
    # R7: Option::map with an inline closure -> match (closures carry no contract in Verus)
    while True:
        m = re.search(r'(self(?:\.\w+)+(?:\(\))?)\s*\.map\(\|(\w+)\| \{', s)
        if not m: break
        b = m.end() - 1
        c = match_close(s, b)
        if s[c + 1] != ')': raise ExtractError('R7: unexpected closure shape')
        s = s[:m.start()] + 'match %s { Some(%s) => Some({%s}), None => None }' % (m.group(1), m.group(2), s[b + 1:c]) + s[c + 2:]
        applied.add('R7')
    s = sub('R8', r'if (self\.\w+\.get\(\w+\)) >= (self\.\w+\.get\(\w+\)) \{', r'if *\1.unwrap() >= *\2.unwrap() {', s)
    # R10: plain iterator loops over a deque/vec -> index loops (fresh index r10_i; contracts refer to the loop index as @I@)
    s = sub('R10', r'for &(\w+) in ((?:self\.)?\w+)\.iter\(\) \{', r'for r10_i in 0..\2.len() { let \1 = \2[r10_i];', s)
    s = sub('R10', r'for (\w+) in ((?:self\.)?\w+)\.iter\(\) \{', r'for r10_i in 0..\2.len() { let \1 = &\2[r10_i];', s)
    # R11: reversed range loops -> forward index loop with the reversed index bound inside (same iteration order of the index values)
    while True:
        m = re.search(r'for (\w+) in \(', s)
        found = False
        for m in re.finditer(r'for (\w+) in \(', s):
            op = m.end() - 1
            cl = match_close(s, op, '(', ')')
            tail = re.match(r'\.rev\(\)\s*\{', s[cl + 1:])
            inner = s[op + 1:cl]
            if tail and '..=' in inner:
                a, b = inner.split('..=', 1)
                s = s[:m.start()] + 'for r11_k in %s..=%s { let %s = %s - (r11_k - %s);' % (a.strip(), b.strip(), m.group(1), b.strip(), a.strip()) + s[cl + 1 + tail.end():]
                applied.add('R11'); found = True
                break
            if tail and '..' in inner and '..=' not in inner:
                a, b = inner.split('..', 1)
                s = s[:m.start()] + 'for r11_k in %s..%s { let %s = %s - 1 - (r11_k - %s);' % (a.strip(), b.strip(), m.group(1), b.strip(), a.strip()) + s[cl + 1 + tail.end():]
                applied.add('R11'); found = True
                break
        if not found: break
    s = sub('R6', r'self\.(\w+)\.last\(\)\.copied\(\)', r'vec_last(&self.\1)', s)
    # R15: the canonical counting `while` loop -> `for` (same index values in the same order); side conditions checked syntactically
    pos = 0
    while True:
        m = re.compile(r'let mut (\w+)(?:\s*:\s*usize)?\s*=\s*([^;{}]+);\s*while \1 < ([^{}]+?)\s*\{').search(s, pos)
        if not m: break
        pos = m.end()
        var, lo, hi = m.group(1), m.group(2).strip(), m.group(3).strip()
        ob = m.end() - 1
        cb = match_close(s, ob)
        inner = s[ob + 1:cb]
        tm = re.search(r'\b%s\s*\+=\s*1\s*;\s*$' % var, inner)
        if not tm: continue
        core = inner[:tm.start()]
        if re.search(r'\b%s\s*(?:[-+*/]?=)(?!=)' % var, core) or re.search(r'\b(?:continue|break|return)\b', core): continue
        if re.search(r'\b%s\b' % var, hi): continue
        # the index must not be read after the loop: scan to the end of the enclosing block
        d = 0; j = cb + 1
        while j < len(s) and d >= 0:
            if s[j] == '{': d += 1
            elif s[j] == '}': d -= 1
            j += 1
        if re.search(r'\b%s\b' % var, s[cb + 1:j]): continue
        s = s[:m.start()] + 'for %s in %s..%s {' % (var, lo, hi) + core.rstrip() + '\n' + s[cb:]
        applied.add('R15'); pos = m.start()
    # R14: a `return` in match-arm position becomes a block, so that it stands at statement level like every other `return`
    s = sub('R14', r'=>\s*return\b[ \t]*([\w\.\*&:]*)[ \t]*,', r'=> { return \1; },', s)
    s = sub('R14', r'=>\s*return\b[ \t]*([\w\.\*&:]*)\s*\}', r'=> { return \1; } }', s)
    return s

UNSUPPORTED = [r'\.iter\(\)', r'\.iter_mut\(\)', r'\bunsafe\b', r'\bstatic\b', r'\bCell\b', r'\bRefCell\b', r'\bRc\b', r'\bArc\b',
               r'\bmin_by\b', r'\bmax_by\b', r'\.rev\(\)', r'\.fold\(', r'\.sum\(', r'\bwhile let\b',
               # closures carry no contract: a guard outside the closure (`c.then(|| a / b)`) is invisible inside it, so an obligation failing
               # there says nothing about the code (found by the cross-property run on C08-T1a: a C15 alarm although no panic is possible)
               r'\.then\(', r'\(\s*\|\|', r'\(\s*move\s*\|']

def monomorphise(s):
    s = re.sub(r'impl<T, ', 'impl<', s)
    s = re.sub(r'impl<T: num::Float> ', 'impl ', s)
    s = re.sub(r'impl<T: Float> ', 'impl ', s)
    s = re.sub(r'impl<T> ', 'impl ', s)
    s = re.sub(r'fn (\w+)<T: Float>\(', r'fn \1(', s)
    for n in VIEW_NAMES + ['View']:
        s = re.sub(r'\b%s<T: Float, ' % n, '%s<' % n, s)
        s = re.sub(r'\b%s<T, ' % n, '%s<' % n, s)
        s = re.sub(r'\b%s<T>' % n, n, s)
    s = re.sub(r'\n\s*T: Float \+ std::fmt::Debug,', '', s)
    s = re.sub(r'\n\s*T: Float,', '', s)
    s = re.sub(r'\n\s*T: num::Float,', '', s)
    s = re.sub(r'where\s*\{', '{', s)
    return s

# ------------------------------------------------------------------ contracts (.vc)
class Contract:
    """sections of a .vc file.  `== pre`, `== implspec`, `== post`, `== fn NAME`, `== loop NAME K`,
    `== loopend NAME K`, `== afterloop NAME K`, `== begin NAME`, `== end NAME`.  In fn/loop sections each clause starts with
    requires / ensures[LABEL|TAGS] / invariant[LABEL|TAGS] / decreases and ends at the next clause."""
    def __init__(self, path, rename=None):
        self.sec = {}
        self.path = path
        cur = None
        if not os.path.exists(path):
            return
        text = open(path).read()
        for o, n in (rename or {}).items():
            text = re.sub(r'((?:\bself|old\(self\)|final\(self\)|\br|\bs0)\s*\.\s*(?:\w+\s*\.\s*)?)%s\b(?!\s*\()' % re.escape(o), lambda m: m.group(1) + n, text)
        for ln in text.split('\n'):
            if ln.startswith('== '):
                cur = ln[3:].strip()
                if cur in self.sec: raise ExtractError('duplicate section %s in %s' % (cur, path))
                self.sec[cur] = []
            elif cur is not None:
                self.sec[cur].append(ln)
        self.used = set()
        self.tail = []
        self.expand()
    # ---- DSL: `== wrapper Name` expands to the low-level sections for the canonical unary wrapper
    def expand(self):
        if 'wrapper' not in ' '.join(self.sec.keys()):
            return
        key = [k for k in self.sec if k.startswith('wrapper ')][0]
        name = key.split()[1]
        snake = re.sub(r'(?<!^)(?=[A-Z][a-z])', '_', name).lower()
        opts = {}
        for ln in self.sec.pop(key):
            if ':' in ln:
                k, _, v = ln.partition(':'); opts[k.strip()] = v.strip()
        own = [self._field(ln) for ln in self.sec.pop('own') if ln.strip()]
        initf = opts.get('ctor', 'new')
        init = dict((f[0], f[1]) for f in [ln.partition(':')[::2] for ln in self.sec.pop('init') if ln.strip()])
        inv = [ln for ln in self.sec.pop('inv', []) if ln.strip()]
        own_step = '\n'.join(self.sec.pop('own_step'))
        own_out = '\n'.join(self.sec.pop('own_out'))
        own_acc = '\n'.join(self.sec.pop('own_accepts', ['true']))
        xg = opts.get('extra_generic', '')          # e.g. `M` for views with a second generic child
        gdecl = '<%s: View>' % xg if xg else ''
        guse = '<%s>' % xg if xg else ''
        O = name + 'Own' + guse
        O0 = name + 'Own'
        S = '(V::S, %s)' % O
        pre = ['pub ghost struct %s%s { %s }' % (O0, gdecl, ', '.join('pub %s: %s' % (f, t) for f, t, _ in own)),
               'pub open spec fn %s_own_step%s(o: %s, y: T) -> %s {\n%s\n}' % (snake, gdecl, O, O, own_step),
               'pub open spec fn %s_own_out%s(o: %s) -> Option<T> {\n%s\n}' % (snake, gdecl, O, own_out),
               'pub open spec fn %s_own_accepts%s(o: %s, y: T) -> bool {\n%s\n}' % (snake, gdecl, O, own_acc)]
        snake_call = snake
        if xg:
            snake = snake  # calls need the turbofish
        tf = '::<%s>' % xg if xg else ''
        self.sec['pre'] = pre + self.sec.get('pre', [])
        conj = []
        for ln in inv:
            m = re.match(r'\[([^|\]]*)\|([^\]]*)\]\s*(.*)$', ln.strip())
            if not m: raise ExtractError('bad inv line in %s: %s' % (self.path, ln))
            conj.append((m.group(1).strip(), m.group(2).strip(), m.group(3).strip()))
        self.conj = conj
        absx = '%s { %s }' % (O0 + ('::<%s>' % xg if xg else ''), ', '.join('%s: %s' % (f, e) for f, _, e in own))
        spec = ['    type S = %s;' % S,
                '    open spec fn abs(&self) -> %s { (self.view.abs(), %s) }' % (S, absx),
                '    open spec fn inv(&self) -> bool {\n        &&& self.view.inv()\n%s\n    }' % '\n'.join('        &&& (%s)' % c[2] for c in conj),
                '    open spec fn step(s: %s, x: T) -> %s {\n        let vs = V::step(s.0, x);\n        (vs, match V::out(vs) { Some(y) => %s_own_step%s(s.1, y), None => s.1 })\n    }' % (S, S, snake, tf),
                '    open spec fn out(s: %s) -> Option<T> { %s_own_out%s(s.1) }' % (S, snake, tf),
                '    open spec fn accepts(s: %s, x: T) -> bool {\n        V::accepts(s.0, x) && (match V::out(V::step(s.0, x)) { Some(y) => %s_own_accepts%s(s.1, y), None => true })\n    }' % (S, snake, tf)]
        self.sec['implspec'] = spec + self.sec.get('implspec', [])
        def sub_self(e, to):
            return re.sub(r'\bself\b', to, e)
        self.init_own = '(%s { %s })' % (O0 + ('::<%s>' % xg if xg else ''), ', '.join('%s: %s' % (f, init[f].strip()) for f, _, _ in own))
        newc = ['requires view.inv()']
        # the initial abstract state is part of the functional statement (coefficients, zero/first-value initial state)
        newc += ['ensures[init|%s] r.view.abs() == view.abs() && r.abs().1 == (%s { %s })' % (opts.get('E3', ''), O0 + ('::<%s>' % xg if xg else ''), ', '.join('%s: %s' % (f, init[f].strip()) for f, _, _ in own))]
        newc += ['ensures[inv:%s|%s] %s' % (l, t, sub_self(e, 'r')) for l, t, e in conj]
        newc += ['ensures[inv:view|C15] r.view.inv()']
        self.sec['fn ' + initf] = newc + self.sec.get('fn ' + initf, [])
        e3 = opts.get('E3', '')
        # E2 (own state unchanged while the inner view is silent) decides C01 and the functional properties; C08 only needs the weaker
        # E2o (the ANSWER is unchanged), so that a bookkeeping change without effect on the answer is not reported against C08
        upd = ['ensures[E1|C01] final(self).abs().0 == V::step(old(self).abs().0, @RAW@)',
               'ensures[E2|C01%s] V::out(final(self).abs().0).is_none() ==> final(self).abs().1 == old(self).abs().1' % ((',' + e3) if e3 else ''),
               'ensures[E2o|C08] V::out(final(self).abs().0).is_none() ==> %s_own_out%s(final(self).abs().1) == %s_own_out%s(old(self).abs().1)' % (snake, tf, snake, tf),
               'ensures[E3|%s] V::out(final(self).abs().0).is_some() ==> final(self).abs().1 =~~= %s_own_step%s(old(self).abs().1, V::out(final(self).abs().0).unwrap())' % (e3, snake, tf)]
        upd += ['ensures[inv:%s|%s] %s' % (l, t, sub_self(e, 'final(self)')) for l, t, e in conj]
        self.sec['fn update'] = upd + self.sec.get('fn update', [])
        # asserted before every non-silent exit of `update`, so that the trait-level contract follows from the labelled clauses
        # order: invariant conjuncts first, the refinement E3 last - a failed assert is assumed afterwards, and E3 (state == own_step(..))
        # implies facts such as the buffer bounds, so asserting it first would mask their failure
        self.tail = [('proof { assert(%s); }' % sub_self(e, 'self'), 'inv:' + l, t) for l, t, e in conj]
        e3a = ('proof { assert(V::out(self.abs().0).is_some() ==> self.abs().1 =~~= %s_own_step%s(old(self).abs().1, V::out(self.abs().0).unwrap())); }' % (snake, tf), 'E3', e3)
        if opts.get('tail') == 'E3first': self.tail.insert(0, e3a)     # views whose invariant proofs need the refinement as a stepping stone
        else: self.tail.append(e3a)
        # `out` (the value) decides the functional properties; readiness (C08) and ranges (C07) have clauses of their own, so that a
        # change of the value alone is not reported against them
        otags = [t.strip() for t in opts.get('out', '').split(',') if t.strip()]
        lastc = ['ensures[out|%s] r == %s_own_out%s(self.abs().1)' % (','.join(t for t in otags if t not in ('C08', 'C07')), snake, tf)]
        if 'C08' in otags:
            lastc += ['ensures[ready|C08] r.is_some() == %s_own_out%s(self.abs().1).is_some()' % (snake, tf)]
        self.sec['fn last'] = lastc + self.sec.get('fn last', [])
    def _field(self, ln):
        m = re.match(r'\s*(\w+)\s*:\s*([^=]+?)\s*=\s*(.*)$', ln)
        if not m: raise ExtractError('bad own field in %s: %s' % (self.path, ln))
        return (m.group(1), m.group(2).strip(), m.group(3).strip())
    def get(self, name):
        if name in self.sec:
            self.used.add(name)
            return '\n'.join(self.sec[name])
        return None
    def unused(self):
        return [k for k in self.sec if k not in self.used]

CLAUSE_RE = re.compile(r'^(requires|ensures|invariant|decreases|recommends)(\[[^\]]*\])?\s*(.*)$')

def parse_clauses(text):
    """-> list of (kind, label, tags, expr)"""
    out = []
    for ln in text.split('\n'):
        if not ln.strip():
            continue
        m = CLAUSE_RE.match(ln.strip())
        if m and not ln.startswith('    '):
            lab, tags = None, []
            if m.group(2):
                inner = m.group(2)[1:-1]
                lab, _, tg = inner.partition('|')
                tags = [t.strip() for t in tg.split(',') if t.strip()]
            out.append([m.group(1), lab.strip() if lab else None, tags, m.group(3)])
        else:
            if not out: raise ExtractError('clause text before first clause keyword: ' + ln)
            out[-1][3] += ' ' + ln.strip()
    return out

class Emitter:
    """collects output lines and the line -> obligation map"""
    def __init__(self):
        self.lines = []
        self.map = {}       # line number (1-based) -> dict
        self.fnspans = []   # (start, end, module, fn)
        self.uncontracted_fns = []   # functions of a contracted view that have no contract of their own (e.g. a newly extracted helper)
        self.hint_lines = []  # lines of injected proof text (not code): a failure there is a proof-hint problem, not a code obligation
    def add(self, text, info=None):
        for ln in text.split('\n'):
            self.lines.append(ln)
            if info is not None:
                self.map[len(self.lines)] = info
    def lineno(self):
        return len(self.lines)

def emit_clauses(em, clauses, module, fn, kinds):
    """emit `requires a, b, ensures c, d,` one clause per line"""
    last = None
    order = ['requires', 'recommends', 'invariant', 'ensures', 'decreases']
    clauses = sorted(clauses, key=lambda c: order.index(c[0]))
    for kind, lab, tags, expr in clauses:
        if kind not in kinds:
            raise ExtractError('%s::%s: clause kind %s not allowed here' % (module, fn, kind))
        expr = expr.strip().rstrip(',')
        if kind != last:
            em.add('        ' + kind)
            last = kind
        info = None
        if kind in ('ensures', 'invariant') or lab:
            info = dict(module=module, fn=fn, kind=kind, label=lab or (kind + '@' + fn), tags=tags, text=expr)
        em.add('            ' + expr + ',', info)

# ------------------------------------------------------------------ per-function processing
LOOP_RE = re.compile(r'\b(for\s+[^{;]*?\s+in\s+[^{]*?|while\s+[^{]*?|loop\s*)\{')

def find_loops(body):
    """[(header_start, brace_index, close_index)] in textual order (nested loops included)"""
    res = []
    for m in LOOP_RE.finditer(body):
        b = m.end() - 1
        # `for` headers may contain `{` of struct literals only in exotic code; the crate has none
        res.append((m.start(), b, match_close(body, b)))
    return res

def inject_fn(em, module, vc, header, body, is_trait_impl, struct_name):
    m = re.search(r'\bfn\s+(\w+)', header)
    name = m.group(1)
    hdr = re.sub(r'#\[[^\]]*\]\s*', '', header).strip()
    # named return value
    rm = re.search(r'->\s*(.+)$', hdr, flags=re.S)
    if rm and not re.match(r'\(\w+\s*:', rm.group(1).strip()):
        hdr = hdr[:rm.start()] + '-> (r: %s)' % rm.group(1).strip()
    start_line = em.lineno() + 1
    if ('fn ' + name) not in vc.sec and name not in ('update', 'last') and not is_trait_impl and vc.sec:
        em.uncontracted_fns.append('%s::%s' % (module, name))
    raw = y = None
    pm = re.search(r'fn update\(\s*&mut self,\s*(\w+)\s*:', hdr)
    if pm:
        raw = pm.group(1)
        ym = re.search(r'let Some\((?:mut )?(\w+)\) = self\s*\.view\s*\.last\(\)', body)
        y = ym.group(1) if ym else raw
    # L1: local variables renamed since the contract was written (same `let` bindings in the same order, a fresh name replacing a
    # vanished one): the contract text of this function follows the rename
    lrename = {}
    cur_locals = re.findall(r'\blet\s+(?:mut\s+)?([a-z_]\w*)\s*(?=[:=])', body)
    lkey = '%s::%s/locals' % (module, name)
    if RECORD_LOOPS is not None:
        RECORD_LOOPS[lkey] = cur_locals
    elif lkey in LOOP_HEADERS and LOOP_HEADERS[lkey] != cur_locals and len(LOOP_HEADERS[lkey]) == len(cur_locals):
        oldl = LOOP_HEADERS[lkey]
        lrename = {o: n for o, n in zip(oldl, cur_locals) if o != n and o not in cur_locals and n not in oldl}
        if lrename: em.extra_rules = getattr(em, 'extra_rules', set()) | set(['L1'])
    # P1: parameters renamed since the contract was written (same number of parameters, a fresh name replacing a vanished one)
    pm_all = re.search(r'\bfn\s+\w+\s*(?:<[^>]*>)?\s*\((.*?)\)\s*(?:->|$)', hdr, re.S)
    cur_params = [re.match(r'(?:mut\s+)?(\w+)\s*:', x.strip()).group(1) for x in split_args(pm_all.group(1)) if re.match(r'(?:mut\s+)?(\w+)\s*:', x.strip())] if pm_all else []
    pkey = '%s::%s/params' % (module, name)
    if RECORD_LOOPS is not None:
        RECORD_LOOPS[pkey] = cur_params
    elif pkey in LOOP_HEADERS and LOOP_HEADERS[pkey] != cur_params and len(LOOP_HEADERS[pkey]) == len(cur_params):
        oldp = LOOP_HEADERS[pkey]
        prename = {o: n for o, n in zip(oldp, cur_params) if o != n and o not in cur_params and n not in oldp}
        if prename:
            lrename.update(prename); em.extra_rules = getattr(em, 'extra_rules', set()) | set(['P1'])
    def ren(t):
        if t is None or not lrename: return t
        for o, n in lrename.items():
            t = re.sub(r'(?<![\.\w])%s\b(?!\s*\()(?!\s*:(?!:))' % re.escape(o), n, t)      # not a method name, not the key of a struct-literal field
        return t
    def vget(k):
        return ren(vc.get(k))
    em_add = em.add
    def add_sub(text, info=None):
        if raw:
            text = text.replace('@RAW@', raw).replace('@Y@', y)
            if info and 'text' in info: info = dict(info, text=info['text'].replace('@RAW@', raw).replace('@Y@', y))
        elif '@RAW@' in text or '@Y@' in text:
            raise ExtractError('placeholder outside update in %s::%s' % (module, name))
        em_add(text, info)
    em.add = add_sub
    rlim = vc.get('rlimit ' + name)
    if rlim: em.add('    #[verifier::rlimit(%d)]' % int(rlim.strip()))
    em.add('    ' + hdr)
    ctext = vget('fn ' + name)
    if ctext:
        kinds = ('ensures',) if is_trait_impl else ('requires', 'ensures', 'recommends')
        emit_clauses(em, parse_clauses(ctext), module, name, kinds + ('decreases',))
    # loops: process from the last to the first so that indices stay valid
    loops = find_loops(body)
    ckey = '%s::%s/loops' % (module, name)
    if RECORD_LOOPS is not None:
        RECORD_LOOPS[ckey] = len(loops)
    elif ckey in LOOP_HEADERS and LOOP_HEADERS[ckey] != len(loops):
        raise ExtractError('lost anchor: %s::%s now has %d loop(s), its contract was written for %d' % (module, name, len(loops), LOOP_HEADERS[ckey]))
    inserts = []   # (position, text, kind, k)
    for k, (hs, b, c) in enumerate(loops):
        lv = re.match(r'for\s+(\w+)\s+in', body[hs:b])
        lvn = lv.group(1) if lv else 'i'
        lt = vget('loop %s %d' % (name, k))
        if lt:
            # anchor fingerprint: the loop a contract was written for is recognised by its header (loop variable abstracted);
            # if the header changed the invariants may no longer talk about this loop -> lost anchor, never an alarm
            fp = re.sub(r'\s+', ' ', re.sub(r'^for\s+\w+\s+in', 'for _ in', body[hs:b].strip()))
            fp = re.sub(r'\.\.(=?).*$', r'..\1', fp)          # lower bound and range kind only: the upper bound may be respelt
            key = '%s::%s/loop%d' % (module, name, k)
            if RECORD_LOOPS is not None:
                RECORD_LOOPS[key] = fp
            elif LOOP_HEADERS.get(key) is not None and LOOP_HEADERS[key] != fp:
                raise ExtractError('lost anchor: loop %s now reads `%s` (contract written for `%s`)' % (key, fp, LOOP_HEADERS[key]))
            um = re.search(r'\.\.=?\s*(.+?)\s*$', body[hs:b].strip(), re.S)
            inserts.append((b, ('LOOP', k, lt.replace('@I@', lvn).replace('@END@', '(%s)' % um.group(1) if um else '@END@'))))
        bl = vget('beforeloop %s %d' % (name, k))
        if bl:
            inserts.append((body.rfind('\n', 0, hs) + 1, ('TEXT', -1, bl)))
        le = vget('loopend %s %d' % (name, k))
        if le:
            inserts.append((c, ('LOOPEND', k, le.replace('@I@', lvn))))
        al = vget('afterloop %s %d' % (name, k))
        if al:
            inserts.append((c + 1, ('TEXT', -1, '\n' + al)))       # directly behind the closing brace of the loop
    tail = vc.tail if (name == 'update' and is_trait_impl) else []
    for k, m in enumerate(re.finditer(r'\breturn\b', body)):
        rt = vget('return %s %d' % (name, k))
        if rt:
            inserts.append((m.start(), ('TEXT', k, rt)))
        if tail and k >= 1:
            inserts.append((m.start(), ('TAIL', k, '')))
    for key in list(vc.sec.keys()):
        # statement-level anchor (used sparingly): `== before FN :: needle` - proof text goes before the line containing needle
        if key.startswith('before %s ::' % name):
            needle = ren(key.split('::', 1)[1].strip())
            if body.count(needle) != 1:
                raise ExtractError('lost anchor: `%s` occurs %d times in %s::%s' % (needle, body.count(needle), module, name))
            at = body.rfind('\n', 0, body.index(needle)) + 1
            inserts.append((at, ('TEXT', -1, vget(key))))
    bt = vget('begin ' + name)
    if bt:
        inserts.append((0, ('TEXT', -1, bt)))
    et = vget('end ' + name)
    has_ret = bool(rm)
    tail_expr = has_ret and body.rstrip() and body.rstrip()[-1] != ';'
    if et:
        if tail_expr:
            inserts.append((last_stmt_start(body), ('TEXT', -1, et)))     # before the tail expression
        else:
            inserts.append((len(body.rstrip()), ('END', -1, et)))
    if tail:
        inserts.append((len(body.rstrip()), ('ENDTAIL', -1, '')))
    prio = {'TEXT': 0, 'LOOP': 0, 'END': 0, 'LOOPEND': 0, 'TAIL': 1, 'ENDTAIL': 1}
    inserts = [x for _, x in sorted(enumerate(inserts), key=lambda t: (t[1][0], prio[t[1][1][0]], t[0]))]
    em.add('    {')
    pos = 0
    for p, (kind, k, text) in inserts:
        chunk = body[pos:p]
        if kind in ('END', 'ENDTAIL', 'LOOPEND') and chunk.rstrip() and chunk.rstrip()[-1] not in ';}{':
            chunk = chunk.rstrip() + ';'
        if chunk.strip('\n') != '' or chunk.count('\n') > 1:
            em.add(chunk.strip('\n'))
        if kind == 'LOOP':
            emit_clauses(em, parse_clauses(text), module, '%s/loop%d' % (name, k), ('invariant', 'decreases'))
        elif kind in ('TAIL', 'ENDTAIL'):
            for tl, lab, tg in tail:
                em.add(tl, dict(module=module, fn=name, kind='ensures', label=lab, tags=[t.strip() for t in tg.split(',') if t.strip()], text=tl))
        else:
            h0 = em.lineno() + 1
            em.add(text)
            em.hint_lines += list(range(h0, em.lineno() + 1))
        pos = p
    rest = body[pos:]
    if rest.strip('\n') != '':
        em.add(rest.strip('\n'))
    em.add('    }')
    em.add = em_add
    em.fnspans.append((start_line, em.lineno(), module, name))
    return name

def last_stmt_start(body):
    """offset where the last top-level statement of a block body starts"""
    i, n, start, last = 0, len(body), 0, 0
    while i < n:
        c = body[i]
        if c == '"':
            i = body.index('"', i + 1)
        elif c in '({[':
            j = match_close(body, i, c, {'(': ')', '{': '}', '[': ']'}[c])
            if c == '{':
                k = j + 1
                while k < n and body[k] in ' \n\t': k += 1
                if not body.startswith('else', k) and not (k < n and body[k] in '.;?)') :
                    if body[start:j].strip():
                        last = start
                    start = j + 1
            i = j
        elif c == ';':
            if body[start:i].strip(): last = start
            start = i + 1
        i += 1
    if body[start:].strip():
        last = start
    return last

def split_args(a):
    out, depth, cur = [], 0, ''
    for ch in a:
        if ch in '([{': depth += 1
        elif ch in ')]}': depth -= 1
        if ch == ',' and depth == 0: out.append(cur.strip()); cur = ''
        else: cur += ch
    if cur.strip(): out.append(cur.strip())
    return out

def unreturn(body):
    """R13: a guard `if COND { return E; }` at the top statement level of a helper body becomes `if COND { E } else { REST }`;
    a final `return E;` becomes `E`.  Returns None when a `return` remains that is not of these two shapes."""
    # `let X = match E { Some(P) => P, None => { return; } }; REST`  (a let-else spelt as a match)  ->  `match E { Some(X) => { REST } None => {} }`
    lm = re.search(r'(^|[;}])(\s*)let\s+(\w+)\s*=\s*match\s+([\w\.]+)\s*\{\s*Some\((\w+)\)\s*=>\s*\5\s*,\s*None\s*=>\s*(?:\{\s*return\s*;\s*\}|return)\s*,?\s*\}\s*;', body)
    if lm and body[:lm.start(2)].count('{') == body[:lm.start(2)].count('}') and not re.search(r'\breturn\b', body[:lm.start(2)]):
        rest = unreturn(body[lm.end():])
        if rest is None: return None
        return body[:lm.start(2)] + lm.group(2) + 'match %s { Some(%s) => {%s} None => {} }\n' % (lm.group(4), lm.group(3), rest)
    depth = 0; i = 0; n = len(body)
    while i < n:
        c = body[i]
        if c in '{([': depth += 1
        elif c in '})]': depth -= 1
        elif depth == 0 and body.startswith('if', i) and (i == 0 or not (body[i - 1].isalnum() or body[i - 1] == '_')) and not (body[i + 2:i + 3].isalnum() or body[i + 2:i + 3] == '_') \
                and re.search(r'(^|[;}])\s*$', body[:i]):
            j = i + 2; d = 0
            while j < n and not (body[j] == '{' and d == 0):
                if body[j] in '([': d += 1
                elif body[j] in ')]': d -= 1
                j += 1
            if j >= n: return None
            cl = match_close(body, j, '{', '}')
            blk = body[j + 1:cl].strip()
            m = re.match(r'^return\b\s*([^;]*);$', blk, re.S)          # `return E;` or the unit `return;`
            rest = body[cl + 1:]
            if m and not re.match(r'\s*else\b', rest):
                r2 = unreturn(rest)
                if r2 is None: return None
                return body[:i] + 'if' + body[i + 2:j] + '{ ' + m.group(1) + ' } else {' + r2 + '}'
            i = cl + 1; continue
        i += 1
    m = re.search(r'(^|[;}])(\s*)return\b\s*([^;]*);\s*$', body, re.S)
    if m and not re.search(r'\breturn\b', body[:m.start(2)]): return body[:m.start(2)] + m.group(2) + m.group(3) + '\n'
    return None if re.search(r'\breturn\b', body) else body

def collect_helpers(items, vc):
    """R12: private helper methods without a contract of their own and without `return`: (params, body) by name"""
    helpers = {}
    for header, body in items:
        h = re.sub(r'#\[[^\]]*\]\s*', '', header).strip()
        if re.match(r'fn\s', h):                                     # private free function
            cand = [(header, body)]
        elif not h.startswith('impl') or re.search(r'\bView for\b', h): continue
        else: cand = top_items(body)
        for fh, fb in cand:
            m = re.search(r'^(?:#\[[^\]]*\]\s*)*(pub\s+)?fn\s+(\w+)\s*(?:<[^>]*>)?\s*\(([^)]*)\)', fh.strip(), re.S)
            if not m or m.group(1): continue                        # public functions keep their own contract
            name = m.group(2)
            if ('fn ' + name) in vc.sec: continue
            r13 = False
            if re.search(r'\breturn\b', fb):
                fb = unreturn(fb); r13 = True
                if fb is None: continue
            params = [x.strip() for x in split_args(m.group(3))]
            has_self = bool(params) and re.match(r'&?\s*(mut\s+)?self$', params[0])
            pnames = [re.match(r'(?:mut\s+)?(\w+)\s*:', x).group(1) for x in params[1 if has_self else 0:]]
            helpers[name] = (has_self, pnames, fb, r13)
    return helpers

def inline_helpers(body, helpers, applied):
    for _ in range(4):
        changed = False
        for name, (has_self, pnames, hb, r13) in helpers.items():
            pat = re.compile((r'\bself\s*\.\s*' if has_self else r'\b(?:Self::)?') + name + r'\s*\(')
            m = pat.search(body)
            if not m: continue
            op = m.end() - 1
            cl = match_close(body, op, '(', ')')
            args = split_args(body[op + 1:cl])
            if len(args) != len(pnames): raise ExtractError('R12: arity mismatch inlining %s' % name)
            binds = ''.join('let r12_%d = (%s); ' % (i, a) for i, a in enumerate(args)) + ''.join('let %s = r12_%d; ' % (p, i) for i, p in enumerate(pnames))
            body = body[:m.start()] + '{ ' + binds + hb.strip('\n') + ' }' + body[cl + 1:]
            applied.add('R12'); changed = True
            if r13: applied.add('R13')
        if not changed: break
    return body

def emit_clone_view(em, module, struct_name, fields, derived, report, manual=False):
    """M4: the field-wise clone that `#[derive(Clone)]` generates, as the trait's clone_view; a view whose Clone is hand-written
    (or absent) gets an unverified clone_view and is reported, so that C17 cannot be claimed proved for it"""
    start = em.lineno() + 1
    if not derived:
        # no Clone at all: the type cannot be cloned, the clone clause is vacuous for it (the trait method is a stub that nothing real corresponds to)
        report.setdefault('clone_unverified' if manual else 'not_clonable', []).append(module)
        em.add('    #[verifier::external_body] fn clone_view(&self) -> (r: Self) { unimplemented!() }')
        return
    parts = []
    for name, ty in fields:
        if ty in ('T', 'usize', 'bool', 'Option<T>', 'Option<usize>', 'u32', 'i32', 'u64', 'f64'): e = 'self.%s' % name
        elif ty == 'VecDeque<T>': e = 'deque_clone(&self.%s)' % name
        elif ty == 'Vec<T>': e = 'vec_clone(&self.%s)' % name
        elif ty.startswith('std::marker::PhantomData') or ty.startswith('PhantomData'): e = 'std::marker::PhantomData'
        elif re.match(r'^[A-Z]$', ty) or re.match(r'^[A-Z]\w*<[\w, <>]*>$', ty) and ty.split('<')[0] in VIEW_NAMES: e = 'self.%s.clone_view()' % name
        else: raise ExtractError('M4: field %s.%s of type %s is outside the clone rules' % (struct_name, name, ty))
        parts.append('%s: %s' % (name, e))
    em.add('    fn clone_view(&self) -> (r: Self)')
    em.add('    {')
    em.add('        let r = %s { %s };' % (struct_name, ', '.join(parts)))
    em.add('        proof { assert(r.inv() && r.abs() == self.abs()); }',
           dict(module=module, fn='clone_view', kind='ensures', label='clone', tags=['C17'], text='r.inv() && r.abs() == self.abs()   (clone of a view is a view in the same abstract state)'))
    em.add('        r')
    em.add('    }')
    em.fnspans.append((start, em.lineno(), module, 'clone_view'))

def view_canaries(em, stems):
    out = []
    text = '\n'.join(em.lines)
    if 'echo' not in stems: return ''
    for m in re.finditer(r'^pub mod (\w+) \{\n(?:(?!pub mod ).*\n)*?pub struct (\w+)(?:<([^>]*)>)?', text, re.M):
        stem, sname, gens = m.group(1), m.group(2), m.group(3)
        if stem not in stems: continue
        args = []
        for g in [x.strip().split(':')[0].strip() for x in gens.split(',')] if gens else []:
            args.append('crate::views::Sma<crate::views::Echo>' if g == 'M' else 'crate::views::Echo')
        if 'crate::views::Sma<crate::views::Echo>' in args and 'sma' not in stems: continue
        ty = 'crate::views::%s%s' % (sname, ('<%s>' % ', '.join(args)) if args else '')
        out.append('pub proof fn canary_inv_%s(v: %s, y: T) requires v.inv(), <%s as crate::shim::View>::accepts(v.abs(), y) ensures false {}' % (stem, ty, ty))
    return '\n'.join(out) + '\n'

def sha(s):
    return hashlib.sha256(s.encode()).hexdigest()[:16]

def process_file(em, path, report):
    stem = os.path.basename(path)[:-3]
    src = open(path).read()
    i = src.find('#[cfg(test)]')
    if i >= 0: src = src[:i]
    getters = re.findall(r'#\[getset\(get_copy = "pub"\)\]\s*\n\s*(\w+): ([^,\n]+),', src)
    s = strip_comments(src)
    m6 = set()
    s = inline_consts(s, m6)
    s = '\n'.join(ln for ln in s.split('\n') if not re.match(r'\s*(use |#\[derive|#\[inline|#\[getset)', ln))
    # multi-line `use std::{...};` never occurs except on one line; assert no stray `use`
    # M5: `impl Default for X<T, Echo<T>> { fn default() -> Self { BODY } }` is one more constructor: kept as an inherent `default()` with the
    # constructor contract (fresh view over Echo in the initial abstract state); derived Default (Echo, Constant) is the field-wise default
    defaults = []
    orig_items = top_items(s)           # before M1, for the fidelity record
    s = monomorphise(s)
    # private-field renames: the struct's field list (names and types, in order) was recorded when the contract was written; if only
    # the names differ now, the contract text is renamed accordingly (self.OLD -> self.NEW) before it is used
    rename = {}
    sm = re.search(r'pub struct (\w+)[^{;]*\{([^}]*)\}', s)
    if sm:
        flds = [(a, re.sub(r'\s+', '', b)) for a, b in re.findall(r'\n\s*(?:pub\s+)?(\w+)\s*:\s*([^\n]+?),?\s*(?=\n)', '\n' + sm.group(2) + '\n')]
        fkey = stem + '/fields'
        if RECORD_LOOPS is not None:
            RECORD_LOOPS[fkey] = flds
        elif fkey in LOOP_HEADERS:
            old = [tuple(x) for x in LOOP_HEADERS[fkey]]
            if [t for _, t in old] == [t for _, t in flds] and [n for n, _ in old] != [n for n, _ in flds]:
                rename = {o: n for (o, _), (n, _) in zip(old, flds) if o != n}
    derives_clone = bool(re.search(r'#\[derive\([^)]*\bClone\b[^)]*\)\]\s*(?:#\[[^\]]*\]\s*)*(?:///[^\n]*\n\s*)*pub struct', src))
    manual_clone = bool(re.search(r'\bimpl\b[^{;]*\bClone\s+for\b', s))
    struct_fields = flds if sm else []
    vc = Contract(os.path.join(VF, 'contracts', stem + '.vc'), rename)
    applied = set(['M1', 'M2']) | m6
    if rename: applied.add('F1')
    em.add('pub mod %s {' % stem)
    em.add('use vstd::prelude::*;\nuse vstd::view::View as SpecView;\nuse std::collections::VecDeque;\n'
           'use crate::shim::*;\nuse crate::shim::View;\nuse crate::lem::*;\nuse crate::alg::*;\nuse crate::alg2::*;\nuse crate::views::*;\n'
           'broadcast use {%s};' % (vc.get('broadcast') or 'crate::lem::group_lem, crate::shim::group_literals, crate::shim::group_shim').strip())
    pre = vc.get('pre')
    if pre: em.add(pre)
    fns = []
    struct_name = None
    helpers = collect_helpers(top_items(s), vc)
    for header, body in top_items(s):
        h = re.sub(r'#\[[^\]]*\]\s*', '', header).strip()
        if h.startswith('pub struct'):
            m = re.match(r'pub struct (\w+)', h)
            struct_name = m.group(1)
            fields = re.sub(r'\n(\s+)(\w+): ', r'\n\1pub \2: ', '\n' + body.strip('\n'))
            for bf in re.findall(r'(\w+): (?:Vec|VecDeque)<', body):
                invtxt = '\n'.join(l for l in (vc.sec.get('implspec', [])) if True)
                bounded = any(('C18' in o['tags'] and re.search(r'\.%s@' % bf, o['text'])) for o in [dict(tags=re.findall(r'C\d+', c[1]), text=c[2]) for c in getattr(vc, 'conj', [])])
                if not bounded:
                    report.setdefault('unbounded_buffers', []).append('%s.%s' % (struct_name, bf))
            em.add(h + ' {' + fields + '\n}')
        elif h.startswith('impl') and re.search(r'\bDefault\s+for\b', h):
            dm = re.search(r'\bDefault\s+for\s+(\w+)', h)
            for fh, fb in top_items(body):
                if re.search(r'\bfn\s+default\b', fh): defaults.append((dm.group(1), rewrite_body(fb, set())))
            continue
        elif h.startswith('impl') and re.search(r'\bClone\s+for\b', h):
            continue                                           # hand-written Clone: dropped, the view is reported under clone_unverified (M4)
        elif h.startswith('impl'):
            is_trait = bool(re.search(r'\bView for\b', h))
            em.add(h + ' {')
            if is_trait:
                sp = vc.get('implspec')
                if sp is None:
                    raise ExtractError('%s: no `== implspec` section (abstract state / step / out) for %s' % (vc.path, struct_name))
                em.add(sp)
            for fh, fb in top_items(body):
                ap = set()
                hm = re.search(r'\bfn\s+(\w+)', fh)
                if hm and hm.group(1) in helpers and not is_trait:
                    applied.add('R12')
                    continue                                   # inlined at its call sites (R12)
                fb2 = rewrite_body(inline_helpers(fb, helpers, ap), ap)
                if not is_trait and re.search(r'\bfn (new\w*|with_\w+)\b', fh):
                    fb2, k9 = re.subn(r'\bassert!\(([^,;]+), "[^"]*"\);', r'if !(\1) { ctor_reject(); }', fb2)
                    if k9: ap.add('R9')
                for pat in UNSUPPORTED:
                    if re.search(pat, fb2):
                        raise ExtractError('unsupported construct %s in %s::%s' % (pat, stem, fh.strip().split('(')[0]))
                name = inject_fn(em, stem, vc, fh, fb2, is_trait, struct_name)
                applied |= ap
                fns.append(dict(module=stem, fn=name, sha256=sha(fb), rules=sorted(ap), body_lines=fb.count('\n')))
            if is_trait:
                emit_clone_view(em, stem, struct_name, struct_fields, derives_clone and not manual_clone, report, manual_clone)
                applied.add('M4')
            if not is_trait and getters:
                applied.add('M3')
                for g, ty in getters:
                    em.add('    pub fn %s(&self) -> (r: %s) ensures r == self.%s { self.%s }' % (g, ty.strip(), g, g))
                getters = []
            em.add('}')
        elif re.match(r'(pub )?fn ', h):
            ap = set()
            hm = re.search(r'\bfn\s+(\w+)', h)
            if hm and hm.group(1) in helpers:
                applied.add('R12')
                continue
            fb2 = rewrite_body(inline_helpers(body, helpers, ap), ap)
            for pat in UNSUPPORTED:
                if re.search(pat, fb2):
                    raise ExtractError('unsupported construct %s in %s::%s' % (pat, stem, h.strip().split('(')[0]))
            name = inject_fn(em, stem, vc, h, fb2, False, None)
            applied |= ap
            fns.append(dict(module=stem, fn=name, sha256=sha(body), rules=sorted(ap), body_lines=body.count('\n')))
        else:
            raise ExtractError('unsupported top-level item in %s: %s' % (path, h[:60]))
    for dname, dbody in defaults:
        if dname != struct_name or not getattr(vc, 'init_own', None): continue
        st = em.lineno() + 1
        em.add('impl %s<Echo> {' % dname)
        em.add('    pub fn default() -> (r: Self)')
        em.add('        ensures')
        txt = 'r.inv()'
        em.add('            %s,' % txt, dict(module=stem, fn='default', kind='ensures', label='default:inv', tags=['C15'], text=txt))
        txt = 'r.abs() == (None::<T>, %s)' % vc.init_own
        em.add('            %s,' % txt, dict(module=stem, fn='default', kind='ensures', label='default', tags=['C13'], text=txt))
        em.add('    {')
        em.add(dbody.strip('\n'))
        em.add('    }')
        em.add('}')
        em.fnspans.append((st, em.lineno(), stem, 'default'))
        applied.add('M5')
        fns.append(dict(module=stem, fn='default', sha256=sha(dbody), rules=['M5'], body_lines=dbody.count('\n')))
    report['functions'] += []
    post = vc.get('post')
    if post: em.add(post)
    em.add('} // mod %s' % stem)
    un = vc.unused() if os.path.exists(vc.path) else []
    if un:
        raise ExtractError('lost anchor: contract sections %s of %s match nothing in %s' % (un, vc.path, path))
    report['functions'] += fns
    report['rules_applied'] |= applied
    return stem

def inline_consts(s, applied=None):
    """M6: `const NAME: f64|f32|usize|u32|i32|u64 = LITERAL;` (module level or inside an impl block) is folded into its uses
    (`NAME`, `Self::NAME`) and the item is dropped - the extracted text then reads as if the literal had been written in place"""
    consts = re.findall(r'^[ \t]*(?:pub(?:\([a-z]+\))?\s+)?const\s+([A-Z][A-Z0-9_]*)\s*:\s*(f64|f32|usize|u32|i32|u64)\s*=\s*(-?[0-9][0-9_]*(?:\.[0-9]+)?)(?:_?(?:f64|f32|usize|u32|i32|u64))?\s*;[ \t]*\n', s, re.M)
    for name, ty, lit in consts:
        s = re.sub(r'^[ \t]*(?:pub(?:\([a-z]+\))?\s+)?const\s+%s\s*:[^;]*;[ \t]*\n' % name, '', s, flags=re.M)
        s = re.sub(r'\b(?:Self::)?%s\b' % name, lit, s)
        if applied is not None: applied.add('M6')
    return s

def literal_axioms(text):
    lits = sorted(set(re.findall(r'T::from\((-?\d+\.\d+)\)', text)))
    out = []
    for k, l in enumerate(lits):
        neg = l.startswith('-')
        a = l.lstrip('-')
        ip, fp = a.split('.')
        num = int(ip + fp); den = 10 ** len(fp)
        val = '%dreal / %dreal' % (num, den) if den != 1 else '%dreal' % num
        if neg: val = '-(' + val + ')'
        lit = ('-' if neg else '') + a + 'f64'
        out.append('pub broadcast axiom fn ax_lit_%d() ensures #[trigger] f64_real(%s) == %s;' % (k, lit, val))
    names = ', '.join('ax_lit_%d' % k for k in range(len(lits)))
    out.append('pub broadcast group group_literals { %s }' % names)
    return '\n'.join(out), lits

# views that embed another view's struct
DEPENDS = {'variance_stabilizing_transformation': ['welford_online', 'echo'], 'vsct': ['welford_online', 'echo'], 'roofing_filter': ['super_smoother', 'echo']}
STRUCT_OF = {}

def source_files():
    files = sorted(glob.glob(REPO + '/src/pure_functions/*.rs') + glob.glob(REPO + '/src/rolling/*.rs') + glob.glob(REPO + '/src/sliding_windows/*.rs'))
    files = [f for f in files if not f.endswith('mod.rs')]
    pri = {'echo.rs': 0, 'welford_online.rs': 1, 'super_smoother.rs': 1}
    files.sort(key=lambda f: (pri.get(os.path.basename(f), 5), os.path.basename(f)))
    return files

def build(out_path, only=None, exclude=None):
    report = dict(functions=[], rules_applied=set(), repo=REPO)
    # the crate's trait must still be the two-method interface the shim's `View` contract was written for (no default bodies, no new
    # methods) and every module file must be one of the three view directories' files: anything else is outside the supported subset
    lib = strip_comments(open(os.path.join(REPO, 'src', 'lib.rs')).read())
    tm = re.search(r'pub trait View<T: num::Float>\s*\{(.*?)\n\}', lib, re.S)
    body = re.sub(r'\s+', ' ', tm.group(1)).strip() if tm else None
    if body != 'fn update(&mut self, val: T); fn last(&self) -> Option<T>;' or len(re.findall(r'\bimpl\b', lib)) > 0:
        raise ExtractError('src/lib.rs: the View trait (or lib.rs) changed shape: %r' % (body,))
    em = Emitter()
    shim = open(os.path.join(VF, 'shim.rs')).read()
    head, tail = shim.split('//@@MODULES@@')
    # literal axioms need the extracted text: two passes (cheap)
    alltext = ''.join(inline_consts(strip_comments(open(f).read())) for f in source_files())
    ax, lits = literal_axioms(alltext)
    head = head.replace('//@@LITERAL_AXIOMS@@', ax)
    em.add(head.rstrip('\n'))
    em.add('pub mod alg {')
    em.add(open(os.path.join(VF, 'alg.rs')).read())
    em.add('} // mod alg')
    em.add('pub mod alg2 {')
    em.add(open(os.path.join(VF, 'alg2.rs')).read())
    em.add('} // mod alg2')
    em.add('pub mod lem {')
    em.add(open(os.path.join(VF, 'lem.rs')).read())
    em.add('} // mod lem')
    em.add('pub mod views {')
    stems = []
    report['uncontracted'] = []
    report['broken'] = {}
    for f in source_files():
        stem = os.path.basename(f)[:-3]
        if not os.path.exists(os.path.join(VF, 'contracts', stem + '.vc')):
            report['uncontracted'].append(stem)
            continue
        if only and stem not in only:
            continue
        # a view that cannot be extracted (construct outside the rules, lost anchor) is left out together with the views that embed it;
        # properties that depend on it become undecided (exit 2), the others are unaffected
        mark = (len(em.lines), dict(em.map), list(em.fnspans), list(em.hint_lines), list(em.uncontracted_fns), len(report['functions']))
        try:
            if exclude and stem in exclude:
                raise ExtractError(exclude[stem])
            if any(d in report['broken'] for d in DEPENDS.get(stem, [])):
                raise ExtractError('depends on a view that could not be extracted')
            stems.append(process_file(em, f, report))
        except ExtractError as e:
            em.lines = em.lines[:mark[0]]; em.map = mark[1]; em.fnspans = mark[2]; em.hint_lines = mark[3]; em.uncontracted_fns = mark[4]
            report['functions'] = report['functions'][:mark[5]]
            em.add = Emitter.add.__get__(em)
            report['broken'][stem] = str(e)
    em.add('\n'.join('pub use self::%s::*;' % s for s in stems))
    em.add('} // mod views')
    em.add('pub mod props {')
    broken_names = set()
    for b in report['broken']:
        camel = ''.join(x.capitalize() for x in b.split('_'))
        broken_names |= {b + '_own', camel + 'Own', camel + '::', camel + '<'}
        vcb = os.path.join(VF, 'contracts', b + '.vc')
        if os.path.exists(vcb):
            m = re.search(r'^== wrapper (\w+)', open(vcb).read(), re.M)
            if m: broken_names |= {m.group(1) + 'Own', m.group(1) + '::', m.group(1) + '<', re.sub(r'(?<!^)(?=[A-Z][a-z])', '_', m.group(1)).lower() + '_own'}
            broken_names |= set(re.findall(r'pub open spec fn (\w+)', open(vcb).read()))
    report['props_skipped'] = []
    skipped_mods = set()
    ptexts = {os.path.basename(p)[:-3]: open(p).read() for p in sorted(glob.glob(os.path.join(VF, 'props', '*.rs')))}
    for stem, ptxt in ptexts.items():
        if any(re.search(r'\b' + re.escape(nm), ptxt) for nm in broken_names): skipped_mods.add(stem)
    changed = True
    while changed:                      # a lemma module that imports a skipped lemma module is skipped as well (fixpoint)
        changed = False
        for stem, ptxt in ptexts.items():
            if stem not in skipped_mods and any(('props::%s::' % sk) in ptxt for sk in skipped_mods):
                skipped_mods.add(stem); changed = True
    report['props_skipped'] = sorted(skipped_mods)
    for p in sorted(glob.glob(os.path.join(VF, 'props', '*.rs'))):
        stem = os.path.basename(p)[:-3]
        ptxt = ptexts[stem]
        if stem in skipped_mods:
            continue
        em.add('pub mod %s {' % stem)
        em.add('use vstd::prelude::*;\nuse vstd::view::View as SpecView;\nuse std::collections::VecDeque;\n'
               'use crate::shim::*;\nuse crate::shim::View;\nuse crate::lem::*;\nuse crate::alg::*;\nuse crate::alg2::*;\nuse crate::views::*;\n'
               'broadcast use {crate::lem::group_lem, crate::shim::group_literals, crate::shim::group_shim};')
        txt = open(p).read()
        base = em.lineno()
        for k, ln in enumerate(txt.split('\n')):
            m = re.match(r'\s*//\[(\w+)\|([^\]]*)\]', ln)
            em.add(ln)
        em.add('} // mod %s' % stem)
        # vacuity guards for the lemmas of this module (thorough tier): `requires P ensures false` must FAIL for every lemma precondition P
        vac = []
        for lm in re.finditer(r'^pub (?:broadcast )?proof fn (\w+)\s*(<[^>(]*>)?\s*\(([^)]*)\)\s*\n\s*requires\s+(.*?)\n\s*(?:ensures|decreases)\b', txt, re.M | re.S):
            nm, gen, args, req = lm.group(1), lm.group(2) or '', lm.group(3), lm.group(4).strip().rstrip(',')
            req = re.sub(r'#\[trigger\]\s*', '', re.sub(r'//[^\n]*', '', req)).strip().rstrip(',')
            vac.append('pub proof fn vac_%s%s(%s) requires %s ensures false {}' % (nm, gen, args, req))
        if vac:
            em.add('pub mod %s_vac {' % stem)
            em.add('use vstd::prelude::*;\nuse vstd::view::View as SpecView;\nuse std::collections::VecDeque;\n'
                   'use crate::shim::*;\nuse crate::shim::View;\nuse crate::lem::*;\nuse crate::alg::*;\nuse crate::alg2::*;\nuse crate::views::*;\nuse crate::props::%s::*;\n'
                   'broadcast use {crate::lem::group_lem, crate::shim::group_literals, crate::shim::group_shim};' % stem)
            em.add('\n'.join(l for l in txt.split('\n') if l.startswith('use crate::props::')))
            em.add('\n'.join(vac))
            em.add('} // mod %s_vac' % stem)
            report.setdefault('vacuity', {})[stem] = len(vac)
    em.add('} // mod props')
    em.add('pub mod canary {\nuse vstd::prelude::*;\nuse crate::shim::*;\nuse crate::shim::View;\nuse crate::lem::*;\n'
           'broadcast use {crate::lem::group_lem, crate::shim::group_literals, crate::shim::group_shim};\n'
           '// each of these MUST FAIL; if one verifies the trusted base is inconsistent\n'
           'pub proof fn canary_false() ensures false {}\n'
           'pub proof fn canary_axioms() ensures false { ax_cos_sin(1real); ax_pi(); ax_ln_one(); ax_minmax(); ax_signum0(); ax_entropy(1real / 2real); ax_log2_one(); ax_cos_sin_q1(1real); ax_ln_inv(2real); ax_ln_mono(1real, 2real); ax_cos_q23(2real); }\n'
           'pub proof fn canary_real(a: real, b: real) requires a * b == 1real ensures a == b {}\n'
           '// vacuity guards, one per view: neither the representation invariant nor the precondition of update may be contradictory\n'
           + view_canaries(em, stems) +
           '} // mod canary')
    em.add(tail.strip('\n'))
    text = '\n'.join(em.lines) + '\n'
    open(out_path, 'w').write(text)
    report['rules_applied'] = sorted(set(report['rules_applied']) | getattr(em, 'extra_rules', set()))
    report['literals'] = lits
    report['line_map'] = {str(k): v for k, v in em.map.items()}
    report['fnspans'] = em.fnspans
    report['hint_lines'] = em.hint_lines
    report['uncontracted_fns'] = em.uncontracted_fns
    report['modules'] = stems
    report['n_lines'] = len(em.lines)
    return report

if __name__ == '__main__':
    if '--record-loops' in sys.argv:
        RECORD_LOOPS = {}
        build(os.path.join(VF, '..', 'gen', 'all.rs'))
        json.dump(RECORD_LOOPS, open(os.path.join(VF, 'contracts', 'loop_headers.json'), 'w'), indent=1, sort_keys=True)
        print('recorded %d loop headers' % len(RECORD_LOOPS)); sys.exit(0)
    out = sys.argv[1] if len(sys.argv) > 1 else os.path.join(VF, '..', 'gen', 'all.rs')
    try:
        only = os.environ.get('VERIF_ONLY')
        rep = build(out, only.split(',') if only else None)
    except ExtractError as e:
        print('EXTRACT-ERROR:', e)
        sys.exit(2)
    json.dump(rep, open(out + '.map.json', 'w'))
    print('extracted %d functions from %d modules -> %s (%d lines); rules %s' % (
        len(rep['functions']), len(rep['modules']), out, rep['n_lines'], ','.join(rep['rules_applied'])))
