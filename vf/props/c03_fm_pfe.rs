// C03 for PolarizedFractalEfficiency over an M-window Sma (K = N + M - 1): the moving average sees the sequence ps(h) of raw PFE ratios,
// one per full window; its last M entries are functions of the last N + M - 1 inputs.
use crate::props::c00_window::*;
use crate::props::c03_0_suffix::*;
use crate::props::c02_h_sma::*;

// the ratios delivered to the moving average after history h: one per position t >= N, computed from the N values ending at t
pub open spec fn pfe_ps(h: Seq<T>, n: nat) -> Seq<T> decreases h.len() {
    if h.len() < n || h.len() == 0 { Seq::<T>::empty() } else { pfe_ps(h.drop_last(), n).push(mk(pfe_p(win(h, n), n))) }
}
pub proof fn lemma_pfe_ps_len(h: Seq<T>, n: nat)
    requires n >= 1
    ensures pfe_ps(h, n).len() == (if h.len() < n { 0 } else { h.len() - n + 1 })
    decreases h.len()
{ if h.len() >= n && h.len() > 0 { lemma_pfe_ps_len(h.drop_last(), n); } }
pub proof fn lemma_pfe_ps_index(h: Seq<T>, n: nat, j: int)
    requires n >= 1, h.len() >= n, 0 <= j < h.len() - n + 1
    ensures pfe_ps(h, n).len() == h.len() - n + 1, pfe_ps(h, n)[j] == mk(pfe_p(win(h.take(n + j), n), n))
    decreases h.len()
{
    lemma_pfe_ps_len(h, n); lemma_pfe_ps_len(h.drop_last(), n);
    if j == h.len() - n { assert(h.take(n + j) =~= h); }
    else { lemma_pfe_ps_index(h.drop_last(), n, j); assert(h.drop_last().take(n + j) =~= h.take(n + j)); }
}
pub open spec fn pfe_init(n: nat, m: nat) -> PolarizedFractalEfficiencyOwn<Sma<Echo>> {
    PolarizedFractalEfficiencyOwn { n: n, w: Seq::<T>::empty(), o: None::<T>, ma: (None::<T>, SmaOwn { n: m, w: Seq::<T>::empty() }) }
}
pub proof fn lemma_run_pfe(h: Seq<T>, n: nat, m: nat)
    requires n >= 3, m >= 1
    ensures ({ let st = run::<PolarizedFractalEfficiency<Echo, Sma<Echo>>>((None::<T>, pfe_init(n, m)), h);
               st.0 == echo_of(h) && st.1.n == n && st.1.w == win(h, n) && st.1.ma == (echo_of(pfe_ps(h, n)), SmaOwn { n: m, w: win(pfe_ps(h, n), m) })
               && st.1.o == (if pfe_ps(h, n).len() == 0 { None::<T> } else { sma_own_out(SmaOwn { n: m, w: win(pfe_ps(h, n), m) }) }) })
    decreases h.len()
{
    if h.len() > 0 {
        lemma_run_pfe(h.drop_last(), n, m); lemma_win_step(h, n);
        lemma_pfe_ps_len(h, n); lemma_pfe_ps_len(h.drop_last(), n);
        if h.len() >= n {
            let ps = pfe_ps(h, n);
            lemma_win_step(ps, m);
            assert(ps.drop_last() =~= pfe_ps(h.drop_last(), n));
        }
    } else { assert(win(h, n) =~= Seq::<T>::empty()); assert(win(pfe_ps(h, n), m) =~= Seq::<T>::empty()); }
}
pub proof fn lemma_take_win_suffix(h1: Seq<T>, h2: Seq<T>, n: nat, k: nat, c: int)
    requires n >= 1, k >= n, h1.len() >= k, h2.len() >= k, suffix(h1, k) == suffix(h2, k), 0 <= c, c + n <= k
    ensures win(h1.take(h1.len() - c), n) == win(h2.take(h2.len() - c), n)
{
    let a = h1.take(h1.len() - c); let b = h2.take(h2.len() - c);
    assert(win(a, n) =~= win(b, n)) by {
        assert(a.len() >= n && b.len() >= n);
        assert forall|i: int| 0 <= i < n implies win(a, n)[i] == win(b, n)[i] by {
            // element i of the window is element (k - c - n + i) of the common suffix
            assert(win(a, n)[i] == h1[h1.len() - c - n + i]);
            assert(win(b, n)[i] == h2[h2.len() - c - n + i]);
            assert(suffix(h1, k)[k - c - n + i] == h1[h1.len() - c - n + i]);
            assert(suffix(h2, k)[k - c - n + i] == h2[h2.len() - c - n + i]);
        }
    }
}
pub proof fn lemma_finite_memory_pfe(h1: Seq<T>, h2: Seq<T>, n: nat, m: nat)
    requires n >= 3, m >= 1, h1.len() >= n + m - 1, h2.len() >= n + m - 1, suffix(h1, (n + m - 1) as nat) == suffix(h2, (n + m - 1) as nat)
    ensures PolarizedFractalEfficiency::<Echo, Sma<Echo>>::out(run::<PolarizedFractalEfficiency<Echo, Sma<Echo>>>((None::<T>, pfe_init(n, m)), h1))
         == PolarizedFractalEfficiency::<Echo, Sma<Echo>>::out(run::<PolarizedFractalEfficiency<Echo, Sma<Echo>>>((None::<T>, pfe_init(n, m)), h2))
{
    lemma_run_pfe(h1, n, m); lemma_run_pfe(h2, n, m);
    let p1 = pfe_ps(h1, n); let p2 = pfe_ps(h2, n); let k = (n + m - 1) as nat;
    lemma_pfe_ps_len(h1, n); lemma_pfe_ps_len(h2, n);
    assert(p1.len() >= m && p2.len() >= m);
    assert(win(p1, m) =~= win(p2, m)) by {
        assert forall|i: int| 0 <= i < m implies win(p1, m)[i] == win(p2, m)[i] by {
            let j1 = p1.len() - m + i; let j2 = p2.len() - m + i;
            lemma_pfe_ps_index(h1, n, j1); lemma_pfe_ps_index(h2, n, j2);
            // both are the ratio of the window of N values ending c = m - 1 - i positions before the end
            let c = m - 1 - i;
            assert(n + j1 == h1.len() - c && n + j2 == h2.len() - c);
            lemma_take_win_suffix(h1, h2, n, k, c);
            assert(win(p1, m)[i] == p1[j1]); assert(win(p2, m)[i] == p2[j2]);
        }
    }
}
// ---- PFE over ANY moving average M: the state of M after history h is M's own run over the ratio sequence ps(h); if M forgets everything
// older than its last m deliveries (hypothesis: the finite-memory statement of M, e.g. lemma_finite_memory_* of the average used), PFE over M
// forgets everything older than its last N + m - 1 inputs
pub proof fn lemma_run_pfe_generic<M: View>(ma0: M::S, h: Seq<T>, n: nat)
    requires n >= 3
    ensures ({ let st = run::<PolarizedFractalEfficiency<Echo, M>>((None::<T>, PolarizedFractalEfficiencyOwn::<M> { n: n, w: Seq::<T>::empty(), o: None::<T>, ma: ma0 }), h);
               st.0 == echo_of(h) && st.1.n == n && st.1.w == win(h, n) && st.1.ma == run::<M>(ma0, pfe_ps(h, n))
               && st.1.o == (if pfe_ps(h, n).len() == 0 { None::<T> } else { M::out(run::<M>(ma0, pfe_ps(h, n))) }) })
    decreases h.len()
{
    if h.len() > 0 {
        lemma_run_pfe_generic::<M>(ma0, h.drop_last(), n); lemma_win_step(h, n);
        lemma_pfe_ps_len(h, n); lemma_pfe_ps_len(h.drop_last(), n);
        if h.len() >= n {
            let ps = pfe_ps(h, n);
            assert(ps.drop_last() =~= pfe_ps(h.drop_last(), n));
        }
    } else { assert(win(h, n) =~= Seq::<T>::empty()); }
}
pub proof fn lemma_finite_memory_pfe_generic<M: View>(ma0: M::S, h1: Seq<T>, h2: Seq<T>, n: nat, m: nat)
    requires n >= 3, m >= 1, h1.len() >= n + m - 1, h2.len() >= n + m - 1, suffix(h1, (n + m - 1) as nat) == suffix(h2, (n + m - 1) as nat),
             forall|p1: Seq<T>, p2: Seq<T>| p1.len() >= m && p2.len() >= m && suffix(p1, m) == suffix(p2, m) ==> M::out(#[trigger] run::<M>(ma0, p1)) == M::out(#[trigger] run::<M>(ma0, p2)),
    ensures ({ let i = (None::<T>, PolarizedFractalEfficiencyOwn::<M> { n: n, w: Seq::<T>::empty(), o: None::<T>, ma: ma0 });
               PolarizedFractalEfficiency::<Echo, M>::out(run::<PolarizedFractalEfficiency<Echo, M>>(i, h1)) == PolarizedFractalEfficiency::<Echo, M>::out(run::<PolarizedFractalEfficiency<Echo, M>>(i, h2)) })
{
    lemma_run_pfe_generic::<M>(ma0, h1, n); lemma_run_pfe_generic::<M>(ma0, h2, n);
    let p1 = pfe_ps(h1, n); let p2 = pfe_ps(h2, n); let k = (n + m - 1) as nat;
    lemma_pfe_ps_len(h1, n); lemma_pfe_ps_len(h2, n);
    assert(p1.len() >= m && p2.len() >= m);
    assert(suffix(p1, m) =~= suffix(p2, m)) by {
        assert forall|i: int| 0 <= i < m implies suffix(p1, m)[i] == suffix(p2, m)[i] by {
            let j1 = p1.len() - m + i; let j2 = p2.len() - m + i;
            lemma_pfe_ps_index(h1, n, j1); lemma_pfe_ps_index(h2, n, j2);
            let c = m - 1 - i;
            assert(n + j1 == h1.len() - c && n + j2 == h2.len() - c);
            lemma_take_win_suffix(h1, h2, n, k, c);
            assert(suffix(p1, m)[i] == p1[j1]); assert(suffix(p2, m)[i] == p2[j2]);
        }
    }
}
