// C12, further views: one-step equivariance of the own-step under x -> a x (a > 0), lifted to histories by induction
// because the scaled run keeps the state relation below at every step.
use crate::props::c00_affine::*;
use crate::props::c04_averages::*;

// Drawdown: peak scales with a, the relative decline does not change
pub proof fn lemma_drawdown_scale(o: DrawdownOwn, y: T, a: real)
    requires a > 0real, o.peak.v() > 0real, y.v() > 0real
    ensures ({ let os = DrawdownOwn { peak: mk(a * o.peak.v()), mdd: o.mdd };
               let s1 = drawdown_own_step(o, y); let s2 = drawdown_own_step(os, mk(a * y.v()));
               s2.peak.v() == a * s1.peak.v() && s2.mdd == s1.mdd })
{
    let p = o.peak.v(); let yv = y.v();
    assert((a * yv > a * p) == (yv > p)) by(nonlinear_arith) requires a > 0real;
    let p1 = if yv > p { yv } else { p };
    assert(a * p1 > 0real) by(nonlinear_arith) requires a > 0real, p1 > 0real;
    let q = rdiv(p1 - yv, p1);
    lemma_rdiv_mul(p1 - yv, p1);
    assert(q * (a * p1) == a * p1 - a * yv) by(nonlinear_arith) requires q * p1 == p1 - yv;
    lemma_rdiv_unique(q, a * p1 - a * yv, a * p1);
}
// LnReturn: the ratio x_t / x_(t-1) does not change
pub proof fn lemma_ln_return_scale(o: LnReturnOwn, a: real)
    requires a > 0real, o.prev.v() > 0real, o.cur.v() > 0real
    ensures ln_return_own_out(LnReturnOwn { prev: mk(a * o.prev.v()), cur: mk(a * o.cur.v()) }) == ln_return_own_out(o)
{
    let q = rdiv(o.cur.v(), o.prev.v());
    lemma_rdiv_mul(o.cur.v(), o.prev.v());
    assert(a * o.prev.v() != 0real) by(nonlinear_arith) requires a > 0real, o.prev.v() > 0real;
    assert(q * (a * o.prev.v()) == a * o.cur.v()) by(nonlinear_arith) requires q * o.prev.v() == o.cur.v();
    lemma_rdiv_unique(q, a * o.cur.v(), a * o.prev.v());
}
// Roc: 100 (x - base)/base does not change when both are scaled
pub proof fn lemma_roc_scale(x: real, b: real, a: real)
    requires a > 0real, b != 0real
    ensures rdiv(a * x - a * b, a * b) * 100real == rdiv(x - b, b) * 100real
{
    let q = rdiv(x - b, b);
    lemma_rdiv_mul(x - b, b);
    assert(a * b != 0real) by(nonlinear_arith) requires a > 0real, b != 0real;
    assert(q * (a * b) == a * x - a * b) by(nonlinear_arith) requires q * b == x - b;
    lemma_rdiv_unique(q, a * x - a * b, a * b);
}
// BinaryEntropy: only the signs of the values matter
pub proof fn lemma_nonneg_count_scale(w: Seq<T>, a: real)
    requires a > 0real
    ensures nonneg_count(affine(w, a, 0real)) == nonneg_count(w)
    decreases w.len()
{
    if w.len() > 0 {
        lemma_nonneg_count_scale(w.drop_last(), a);
        assert(affine(w, a, 0real).drop_last() =~= affine(w.drop_last(), a, 0real));
        assert(affine(w, a, 0real).last().v() == a * w.last().v() + 0real);
        assert((a * w.last().v() >= 0real) == (w.last().v() >= 0real)) by(nonlinear_arith) requires a > 0real;
    }
}
// Ema / linear filters: scaling is superposition with b = 0 (c10_superposition); stated here for the EMA step
pub proof fn lemma_ema_scale(o: EmaOwn, y: T, a: real)
    ensures ({ let os = EmaOwn { n: o.n, alpha: o.alpha, k: o.k, e: mk(a * o.e.v()) };
               ema_own_step(os, mk(a * y.v())).e.v() == a * ema_own_step(o, y).e.v() })
{
    let w = ema_weight(o);
    lemma_lin_mul(a, 0real, y.v(), 0real, w); lemma_lin_mul(a, 0real, o.e.v(), 0real, 1real - w);
    assert(a * (y.v() * w + o.e.v() * (1real - w)) == a * (y.v() * w) + a * (o.e.v() * (1real - w))) by(nonlinear_arith);
    assert(0real * 0real == 0real && 0real * (0real * w) == 0real && 0real * (0real * (1real - w)) == 0real) by(nonlinear_arith);
    assert((a * y.v()) * w == a * (y.v() * w)) by(nonlinear_arith);
    assert((a * o.e.v()) * (1real - w) == a * (o.e.v() * (1real - w))) by(nonlinear_arith);
}
// WelfordOnline: the windowed mean scales with a and the variance with a^2 (so the standard deviation with a)
pub proof fn lemma_sumsq_scale(w: Seq<T>, a: real)
    ensures sumsq(affine(w, a, 0real)) == (a * a) * sumsq(w)
    decreases w.len()
{
    if w.len() > 0 {
        lemma_sumsq_scale(w.drop_last(), a);
        assert(affine(w, a, 0real).drop_last() =~= affine(w.drop_last(), a, 0real));
        let x = w.last().v();
        assert(affine(w, a, 0real).last().v() == a * x + 0real);
        assert((a * x) * (a * x) == (a * a) * (x * x)) by(nonlinear_arith);
        assert((a * a) * (sumsq(w.drop_last()) + x * x) == (a * a) * sumsq(w.drop_last()) + (a * a) * (x * x)) by(nonlinear_arith);
    } else { assert((a * a) * 0real == 0real) by(nonlinear_arith); }
}
pub proof fn lemma_welford_variance_scale(w: Seq<T>, a: real)
    requires w.len() >= 2, a > 0real
    ensures wo_variance(affine(w, a, 0real)) == (a * a) * wo_variance(w)
{
    let v = affine(w, a, 0real);
    lemma_sumsq_scale(w, a); lemma_sum_affine(w, a, 0real);
    let n = w.len() as real; let s = sum(w); let q = sumsq(w);
    assert((w.len() as real) * 0real == 0real) by(nonlinear_arith);
    let num = n * q - s * s;
    assert(n * ((a * a) * q) - (a * s) * (a * s) == (a * a) * num) by(nonlinear_arith) requires num == n * q - s * s;
    let m2 = rdiv(num, n); lemma_rdiv_mul(num, n);
    assert(((a * a) * m2) * n == (a * a) * num) by(nonlinear_arith) requires m2 * n == num;
    lemma_rdiv_unique((a * a) * m2, (a * a) * num, n);
    let var = rdiv(m2, n - 1real); lemma_rdiv_mul(m2, n - 1real);
    assert(((a * a) * var) * (n - 1real) == (a * a) * m2) by(nonlinear_arith) requires var * (n - 1real) == m2;
    assert((w.len() - 1) as real == n - 1real);
    lemma_rdiv_unique((a * a) * var, (a * a) * m2, n - 1real);
}
