// C09, bounded input => bounded output over whole histories, with bounds that do not depend on the length of the stream.
// LaguerreFilter: L0 is a convex combination (|L0| <= b); every further ladder stage is an all-pass section
//   L_k' = -g L_{k-1}' + L_{k-1} + g L_k,   so  |L_k| <= b_k  with  (1-g) b_k == (1+g) b_{k-1}   (b_0 = b):
// the bounds are fixed by gamma and the input bound alone.  The output (L0 + 2 L1 + 2 L2 + L3)/6 is then within (b + 2 b1 + 2 b2 + b3)/6.
use crate::props::c09_stability::*;
use crate::props::c09_history::*;

pub proof fn lemma_convex_stage(g: real, y: real, c: real, b: real)
    requires 0real <= g <= 1real, -b <= y <= b, -b <= c <= b
    ensures -b <= (1real - g) * y + g * c <= b
{
    assert((1real - g) * y <= (1real - g) * b) by(nonlinear_arith) requires 0real <= g <= 1real, y <= b;
    assert(g * c <= g * b) by(nonlinear_arith) requires 0real <= g, c <= b;
    assert((1real - g) * y >= (1real - g) * (-b)) by(nonlinear_arith) requires 0real <= g <= 1real, y >= -b;
    assert(g * c >= g * (-b)) by(nonlinear_arith) requires 0real <= g, c >= -b;
    assert((1real - g) * b + g * b == b) by(nonlinear_arith);
    assert((1real - g) * (-b) + g * (-b) == -b) by(nonlinear_arith);
}
// one all-pass stage: new value of the previous stage n, old value of the previous stage p (both within bp), own old value c (within bk)
pub proof fn lemma_allpass_stage(g: real, n: real, p: real, c: real, bp: real, bk: real)
    requires 0real <= g < 1real, -bp <= n <= bp, -bp <= p <= bp, -bk <= c <= bk, (1real - g) * bk == (1real + g) * bp
    ensures -bk <= -g * n + p + g * c <= bk
{
    assert(-g * n <= g * bp) by(nonlinear_arith) requires 0real <= g, n >= -bp;
    assert(-g * n >= -(g * bp)) by(nonlinear_arith) requires 0real <= g, n <= bp;
    assert(g * c <= g * bk) by(nonlinear_arith) requires 0real <= g, c <= bk;
    assert(g * c >= -(g * bk)) by(nonlinear_arith) requires 0real <= g, c >= -bk;
    assert(g * bp + bp + g * bk == bk) by(nonlinear_arith) requires (1real - g) * bk == (1real + g) * bp;
}
// the stage bounds are ordered: b <= b1 when (1-g) b1 == (1+g) b, 0 <= g < 1, b >= 0
pub proof fn lemma_stage_bound_grows(g: real, bp: real, bk: real)
    requires 0real <= g < 1real, bp >= 0real, (1real - g) * bk == (1real + g) * bp
    ensures bk >= bp
{
    assert(bk >= bp) by(nonlinear_arith) requires 0real <= g < 1real, bp >= 0real, (1real - g) * bk == (1real + g) * bp;
}
pub open spec fn lag_within(o: LaguerreFilterOwn, b: real, b1: real, b2: real, b3: real) -> bool {
    -b <= o.l0.v() <= b && -b1 <= o.l1.v() <= b1 && -b2 <= o.l2.v() <= b2 && -b3 <= o.l3.v() <= b3
}
pub proof fn lemma_laguerre_filter_bibo(i: LaguerreFilterOwn, h: Seq<T>, b: real, b1: real, b2: real, b3: real)
    requires !i.started, 0real <= i.gamma.v() < 1real, all_within(h, b), h.len() > 0,
        (1real - i.gamma.v()) * b1 == (1real + i.gamma.v()) * b, (1real - i.gamma.v()) * b2 == (1real + i.gamma.v()) * b1, (1real - i.gamma.v()) * b3 == (1real + i.gamma.v()) * b2
    ensures ({ let s = run::<LaguerreFilter<Echo>>((None::<T>, i), h);
               s.1.gamma == i.gamma && s.1.started && lag_within(s.1, b, b1, b2, b3)
               && s.1.f.is_some() && -(b + 2real * b1 + 2real * b2 + b3) <= 6real * s.1.f.unwrap().v() <= b + 2real * b1 + 2real * b2 + b3 })
    decreases h.len()
{
    let g = i.gamma.v();
    let hd = h.drop_last(); let y = h.last();
    assert(-b <= y.v() <= b) by { assert(h.last() == h[h.len() - 1]); }
    assert(b >= 0real);
    lemma_stage_bound_grows(g, b, b1); lemma_stage_bound_grows(g, b1, b2); lemma_stage_bound_grows(g, b2, b3);
    if hd.len() > 0 {
        assert(all_within(hd, b)) by { assert forall|k: int| 0 <= k < hd.len() implies -b <= (#[trigger] hd[k]).v() <= b by { assert(hd[k] == h[k]); } }
        lemma_laguerre_filter_bibo(i, hd, b, b1, b2, b3);
        let s = run::<LaguerreFilter<Echo>>((None::<T>, i), hd);
        let o = s.1;
        let l0 = (1real - g) * y.v() + g * o.l0.v();
        let l1 = -g * l0 + o.l0.v() + g * o.l1.v();
        let l2 = -g * l1 + o.l1.v() + g * o.l2.v();
        let l3 = -g * l2 + o.l2.v() + g * o.l3.v();
        lemma_convex_stage(g, y.v(), o.l0.v(), b);
        lemma_allpass_stage(g, l0, o.l0.v(), o.l1.v(), b, b1);
        lemma_allpass_stage(g, l1, o.l1.v(), o.l2.v(), b1, b2);
        lemma_allpass_stage(g, l2, o.l2.v(), o.l3.v(), b2, b3);
        let n = laguerre_filter_own_step(o, y);
        assert(n.l0.v() == l0 && n.l1.v() == l1 && n.l2.v() == l2 && n.l3.v() == l3);
        assert(n.f == Some(mk(lag_out(l0, l1, l2, l3))));
        lemma_rdiv_mul(l0 + 2real * l1 + 2real * l2 + l3, 6real);
    } else {
        let s0 = run::<LaguerreFilter<Echo>>((None::<T>, i), hd);
        assert(s0 == (None::<T>, i));
        let n = laguerre_filter_own_step(i, y);
        assert(n.l0 == y && n.l1 == y && n.l2 == y && n.l3 == y);
        lemma_rdiv_mul(y.v() + 2real * y.v() + 2real * y.v() + y.v(), 6real);
    }
}

// ---- SuperSmoother: the two-pole section with input.  Input samples within [-b, b] give a forcing term |u| <= c1 b (c1 = 1 - b1 + a1^2 > 0);
// the Lyapunov form of the state then never exceeds m^2 with (1 - a1) m == c1 b  (lemma_two_pole_forced), and it dominates the output:
// (1 - cos^2) f^2 <= m^2.  Neither m nor the cosine depends on the length of the stream.
pub open spec fn ss_cos(n: nat) -> real { r_cos(rdiv(44422real / 10000real, n as real)) }
// one step: state form within m^2, previous input and new input within [-b, b]  ==>  the same after the step
pub proof fn lemma_super_smoother_bibo_step(o: SuperSmootherOwn, y: T, n: nat, b: real, m: real)
    requires n >= 1, o.c1 == mk(ss_c1(n)), o.c2 == mk(ss_b1(n)), o.c3 == mk(ss_c3(n)), b >= 0real, m >= 0real, (1real - ss_a1(n)) * m == ss_c1(n) * b,
        -b <= y.v() <= b, -b <= o.x1.v() <= b, ss_form(n, o.f1.v(), o.f2.v()) <= m * m
    ensures ({ let nx = super_smoother_own_step(o, y);
               nx.c1 == o.c1 && nx.c2 == o.c2 && nx.c3 == o.c3 && nx.x1 == y && ss_form(n, nx.f1.v(), nx.f2.v()) <= m * m
               && (1real - ss_cos(n) * ss_cos(n)) * (nx.f1.v() * nx.f1.v()) <= m * m })
{
    lemma_ss_coeffs(n);
    let a = ss_a1(n); let c = ss_cos(n);
    ax_cos_bound(rdiv(44422real / 10000real, n as real));
    let c1 = ss_c1(n);
    assert(c1 > 0real);
    let w = y.v() + o.x1.v();
    let u = rdiv(c1 * w, 2real);
    lemma_rdiv_mul(c1 * w, 2real);
    assert(c1 * w <= c1 * (2real * b)) by(nonlinear_arith) requires c1 > 0real, w <= 2real * b;
    assert(c1 * w >= -(c1 * (2real * b))) by(nonlinear_arith) requires c1 > 0real, w >= -(2real * b);
    assert(c1 * (2real * b) == 2real * (c1 * b)) by(nonlinear_arith);
    let ub = c1 * b;
    assert(ub >= 0real) by(nonlinear_arith) requires ub == c1 * b, c1 > 0real, b >= 0real;
    assert(-ub <= u <= ub);
    lemma_two_pole_forced(a, c, o.f2.v(), o.f1.v(), u, m, ub);
    let nx = super_smoother_own_step(o, y);
    assert(nx.f1.v() == u + (ss_b1(n) * o.f1.v() + ss_c3(n) * o.f2.v()));
    assert(nx.f2 == o.f1 && nx.x1 == y);
    lemma_two_pole_form_dominates(a, c, nx.f1.v(), nx.f2.v());
}
pub proof fn lemma_super_smoother_bibo(i: SuperSmootherOwn, h: Seq<T>, n: nat, b: real, m: real)
    requires n >= 1, i.c1 == mk(ss_c1(n)), i.c2 == mk(ss_b1(n)), i.c3 == mk(ss_c3(n)), i.f1.v() == 0real, i.f2.v() == 0real, i.x1.v() == 0real,
        b >= 0real, m >= 0real, all_within(h, b), (1real - ss_a1(n)) * m == ss_c1(n) * b
    ensures ({ let s = run::<SuperSmoother<Echo>>((None::<T>, i), h);
               s.1.c1 == i.c1 && s.1.c2 == i.c2 && s.1.c3 == i.c3 && -b <= s.1.x1.v() <= b
               && ss_form(n, s.1.f1.v(), s.1.f2.v()) <= m * m
               && (1real - ss_cos(n) * ss_cos(n)) * (s.1.f1.v() * s.1.f1.v()) <= m * m })
    decreases h.len()
{
    let c = ss_cos(n);
    if h.len() > 0 {
        let hd = h.drop_last(); let y = h.last();
        assert(-b <= y.v() <= b) by { assert(h.last() == h[h.len() - 1]); }
        assert(all_within(hd, b)) by { assert forall|k: int| 0 <= k < hd.len() implies -b <= (#[trigger] hd[k]).v() <= b by { assert(hd[k] == h[k]); } }
        lemma_super_smoother_bibo(i, hd, n, b, m);
        let s = run::<SuperSmoother<Echo>>((None::<T>, i), hd);
        lemma_super_smoother_bibo_step(s.1, y, n, b, m);
    } else {
        assert(run::<SuperSmoother<Echo>>((None::<T>, i), h) == (None::<T>, i));
        assert(ss_form(n, 0real, 0real) == 0real) by(nonlinear_arith) requires ss_form(n, 0real, 0real) == 0real * 0real - ss_b1(n) * (0real * 0real) + (ss_a1(n) * ss_a1(n)) * (0real * 0real);
        assert(m * m >= 0real) by(nonlinear_arith);
        assert((1real - c * c) * (0real * 0real) == 0real) by(nonlinear_arith);
    }
}

// ---- RoofingFilter: a double-pole high-pass (cascade of two one-pole sections, lemma_double_pole_forced) feeding a SuperSmoother.
// Inputs within [-b, b] keep the high-pass within hb, hence the smoother's Lyapunov form within m^2 – for ever, with
//   ub == (1 - alpha/2)^2 * 4 b,  (1 - rho) wb == ub,  (1 - rho) hb == wb,  |1 - alpha| <= rho < 1,  (1 - a1(M)) m == c1(M) hb.
pub open spec fn roof_within(o: RoofingFilterOwn, mlen: nat, b: real, wb: real, hb: real, m: real) -> bool {
    -b <= o.x1.v() <= b && -b <= o.x2.v() <= b
    && -wb <= o.h1.v() - (1real - o.alpha.v()) * o.h2.v() <= wb && -hb <= o.h1.v() <= hb
    && o.ss.1.c1 == mk(ss_c1(mlen)) && o.ss.1.c2 == mk(ss_b1(mlen)) && o.ss.1.c3 == mk(ss_c3(mlen))
    && -hb <= o.ss.1.x1.v() <= hb && ss_form(mlen, o.ss.1.f1.v(), o.ss.1.f2.v()) <= m * m
    && (1real - ss_cos(mlen) * ss_cos(mlen)) * (o.ss.1.f1.v() * o.ss.1.f1.v()) <= m * m
}
pub proof fn lemma_roofing_bibo_step(o: RoofingFilterOwn, y: T, mlen: nat, b: real, rho: real, ub: real, wb: real, hb: real, m: real)
    requires mlen >= 1, b >= 0real, m >= 0real, -b <= y.v() <= b, roof_within(o, mlen, b, wb, hb, m),
        -rho <= 1real - o.alpha.v() <= rho, 0real <= rho < 1real,
        ub == r_powi(1real - rdiv(o.alpha.v(), 2real), 2) * (4real * b), (1real - rho) * wb == ub, (1real - rho) * hb == wb,
        (1real - ss_a1(mlen)) * m == ss_c1(mlen) * hb
    ensures ({ let nx = roofing_filter_own_step(o, y); nx.alpha == o.alpha && nx.n == o.n && roof_within(nx, mlen, b, wb, hb, m) })
{
    let al = o.alpha.v(); let r = 1real - al;
    let g = r_powi(1real - rdiv(al, 2real), 2);
    ax_powi2(1real - rdiv(al, 2real)); ax_powi2(r);
    lemma_sq_nonneg(1real - rdiv(al, 2real));
    assert(g >= 0real);
    let d = y.v() - 2real * o.x1.v() + o.x2.v();
    assert(-(4real * b) <= d <= 4real * b);
    let u = g * d;
    assert(g * d <= g * (4real * b)) by(nonlinear_arith) requires g >= 0real, d <= 4real * b;
    assert(g * d >= -(g * (4real * b))) by(nonlinear_arith) requires g >= 0real, d >= -(4real * b);
    assert(ub >= 0real) by(nonlinear_arith) requires ub == g * (4real * b), g >= 0real, b >= 0real;
    lemma_double_pole_forced(r, rho, u, o.h1.v(), o.h2.v(), ub, wb, hb);
    let hp = roof_hp(o, y);
    assert(hp == u + 2real * r * o.h1.v() - (r * r) * o.h2.v());
    let nx = roofing_filter_own_step(o, y);
    assert(nx.h1.v() == hp && nx.h2 == o.h1 && nx.x1 == y && nx.x2 == o.x1);
    if o.k > o.n {
        lemma_super_smoother_bibo_step(o.ss.1, mk(hp), mlen, hb, m);
        assert(nx.ss.1 == super_smoother_own_step(o.ss.1, mk(hp)));
    } else {
        assert(nx.ss == o.ss);
    }
}
pub proof fn lemma_roofing_filter_bibo(i: RoofingFilterOwn, h: Seq<T>, mlen: nat, b: real, rho: real, ub: real, wb: real, hb: real, m: real)
    requires mlen >= 1, b >= 0real, m >= 0real, all_within(h, b),
        i.x1.v() == 0real, i.x2.v() == 0real, i.h1.v() == 0real, i.h2.v() == 0real,
        i.ss.1.c1 == mk(ss_c1(mlen)), i.ss.1.c2 == mk(ss_b1(mlen)), i.ss.1.c3 == mk(ss_c3(mlen)), i.ss.1.f1.v() == 0real, i.ss.1.f2.v() == 0real, i.ss.1.x1.v() == 0real,
        -rho <= 1real - i.alpha.v() <= rho, 0real <= rho < 1real,
        ub == r_powi(1real - rdiv(i.alpha.v(), 2real), 2) * (4real * b), (1real - rho) * wb == ub, (1real - rho) * hb == wb,
        (1real - ss_a1(mlen)) * m == ss_c1(mlen) * hb
    ensures ({ let s = run::<RoofingFilter<Echo>>((None::<T>, i), h); s.1.alpha == i.alpha && s.1.n == i.n && roof_within(s.1, mlen, b, wb, hb, m) })
    decreases h.len()
{
    if h.len() > 0 {
        let hd = h.drop_last(); let y = h.last();
        assert(-b <= y.v() <= b) by { assert(h.last() == h[h.len() - 1]); }
        assert(all_within(hd, b)) by { assert forall|k: int| 0 <= k < hd.len() implies -b <= (#[trigger] hd[k]).v() <= b by { assert(hd[k] == h[k]); } }
        lemma_roofing_filter_bibo(i, hd, mlen, b, rho, ub, wb, hb, m);
        let s = run::<RoofingFilter<Echo>>((None::<T>, i), hd);
        lemma_roofing_bibo_step(s.1, y, mlen, b, rho, ub, wb, hb, m);
    } else {
        assert(run::<RoofingFilter<Echo>>((None::<T>, i), h) == (None::<T>, i));
        let g = r_powi(1real - rdiv(i.alpha.v(), 2real), 2);
        ax_powi2(1real - rdiv(i.alpha.v(), 2real)); lemma_sq_nonneg(1real - rdiv(i.alpha.v(), 2real));
        assert(ub >= 0real) by(nonlinear_arith) requires ub == g * (4real * b), g >= 0real, b >= 0real;
        assert(wb >= 0real) by(nonlinear_arith) requires (1real - rho) * wb == ub, ub >= 0real, rho < 1real;
        assert(hb >= 0real) by(nonlinear_arith) requires (1real - rho) * hb == wb, wb >= 0real, rho < 1real;
        assert((1real - i.alpha.v()) * 0real == 0real) by(nonlinear_arith);
        assert(ss_form(mlen, 0real, 0real) == 0real) by(nonlinear_arith) requires ss_form(mlen, 0real, 0real) == 0real * 0real - ss_b1(mlen) * (0real * 0real) + (ss_a1(mlen) * ss_a1(mlen)) * (0real * 0real);
        assert(m * m >= 0real) by(nonlinear_arith);
        assert((1real - ss_cos(mlen) * ss_cos(mlen)) * (0real * 0real) == 0real) by(nonlinear_arith);
    }
}

// ---- CyberCycle: the cycle recursion is a double pole at r = 1 - alpha driven by the second difference of the 4-tap smoother.
// Inputs within [-b, b] keep every smoothed tap within b, the forcing term within ub == (1 - alpha/2)^2 * 4 b, and – by the cascade form of
// lemma_double_pole_forced – every stored output within hb, with (1 - rho) wb == ub, (1 - rho) hb == wb, |1 - alpha| <= rho < 1.
pub open spec fn cc_within(o: CyberCycleOwn, b: real, wb: real, hb: real) -> bool {
    o.outs.len() == o.vals.len() && o.vals.len() <= o.n && all_within(o.vals, b) && all_within(o.outs, hb)
    && (forall|j: int| 1 <= j < o.outs.len() ==> -wb <= (#[trigger] o.outs[j]).v() - (1real - o.alpha.v()) * o.outs[j - 1].v() <= wb)
    && (o.vals.len() < o.n ==> forall|j: int| 0 <= j < o.outs.len() ==> (#[trigger] o.outs[j]).v() == 0real)
}
pub proof fn lemma_cc_sm_bound(v: Seq<T>, i: int, b: real)
    requires all_within(v, b), b >= 0real, 0 <= i < v.len()
    ensures -b <= cc_sm(v, i) <= b
{
    if i >= 3 {
        let s = v[i].v() + 2real * v[i - 1].v() + 2real * v[i - 2].v() + v[i - 3].v();
        lemma_rdiv_mul(s, 6real);
        assert(-(6real * b) <= s <= 6real * b);
    }
}
pub proof fn lemma_cyber_cycle_bibo_step(o: CyberCycleOwn, y: T, b: real, rho: real, ub: real, wb: real, hb: real)
    requires o.n >= 3, b >= 0real, -b <= y.v() <= b, cc_within(o, b, wb, hb),
        -rho <= 1real - o.alpha.v() <= rho, 0real <= rho < 1real,
        ub == r_powi(1real - (5real / 10real) * o.alpha.v(), 2) * (4real * b), (1real - rho) * wb == ub, (1real - rho) * hb == wb
    ensures ({ let nx = cc_step(o, y); nx.alpha == o.alpha && nx.n == o.n && cc_within(nx, b, wb, hb) })
{
    let a = o.alpha.v(); let r = 1real - a;
    let g = r_powi(1real - (5real / 10real) * a, 2);
    ax_powi2(1real - (5real / 10real) * a); ax_powi2(r); lemma_sq_nonneg(1real - (5real / 10real) * a);
    assert(g >= 0real);
    assert(ub >= 0real) by(nonlinear_arith) requires ub == g * (4real * b), g >= 0real, b >= 0real;
    assert(wb >= 0real) by(nonlinear_arith) requires (1real - rho) * wb == ub, ub >= 0real, rho < 1real;
    assert(hb >= 0real) by(nonlinear_arith) requires (1real - rho) * hb == wb, wb >= 0real, rho < 1real;
    let full = o.vals.len() >= o.n && o.vals.len() > 0;
    let v1 = wpush(o.vals, y, o.n);
    let o1 = if full { o.outs.drop_first() } else { o.outs };
    assert(all_within(v1, b)) by {
        assert forall|k: int| 0 <= k < v1.len() implies -b <= (#[trigger] v1[k]).v() <= b by {
            if full { if k < v1.len() - 1 { assert(v1[k] == o.vals[k + 1]); } else { assert(v1[k] == y); } }
            else { if k < o.vals.len() { assert(v1[k] == o.vals[k]); } else { assert(v1[k] == y); } }
        }
    }
    assert(all_within(o1, hb)) by {
        assert forall|k: int| 0 <= k < o1.len() implies -hb <= (#[trigger] o1[k]).v() <= hb by { if full { assert(o1[k] == o.outs[k + 1]); } }
    }
    assert forall|j: int| 1 <= j < o1.len() implies -wb <= (#[trigger] o1[j]).v() - r * o1[j - 1].v() <= wb by {
        if full { assert(o1[j] == o.outs[j + 1]); assert(o1[j - 1] == o.outs[j]); }
    }
    let nx = cc_step(o, y);
    if v1.len() < o.n {
        // still filling: every stored output is 0 and another 0 is stored
        assert(!full);
        let z = mk(0real);
        assert(nx.outs == o1.push(z));
        assert(r * 0real == 0real) by(nonlinear_arith);
        assert forall|j: int| 0 <= j < nx.outs.len() implies (#[trigger] nx.outs[j]).v() == 0real by { if j < o1.len() { assert(nx.outs[j] == o1[j]); } }
        assert(all_within(nx.outs, hb));
        assert forall|j: int| 1 <= j < nx.outs.len() implies -wb <= (#[trigger] nx.outs[j]).v() - r * nx.outs[j - 1].v() <= wb by {
            assert(nx.outs[j].v() == 0real); assert(nx.outs[j - 1].v() == 0real);
        }
    } else {
        let last = v1.len() - 1;
        assert(v1.len() == o.n && last >= 2 && o1.len() == last);
        lemma_cc_sm_bound(v1, last, b); lemma_cc_sm_bound(v1, last - 1, b); lemma_cc_sm_bound(v1, last - 2, b);
        let d = cc_sm(v1, last) - 2real * cc_sm(v1, last - 1) + cc_sm(v1, last - 2);
        assert(-(4real * b) <= d <= 4real * b);
        let u = g * d;
        assert(g * d <= g * (4real * b)) by(nonlinear_arith) requires g >= 0real, d <= 4real * b;
        assert(g * d >= -(g * (4real * b))) by(nonlinear_arith) requires g >= 0real, d >= -(4real * b);
        let h1 = o1[last - 1].v(); let h2 = o1[last - 2].v();
        assert(-wb <= h1 - r * h2 <= wb);
        lemma_double_pole_forced(r, rho, u, h1, h2, ub, wb, hb);
        let cc = u + 2real * r * h1 - (r * r) * h2;
        assert(nx.outs == o1.push(mk(cc)));
        assert forall|k: int| 0 <= k < nx.outs.len() implies -hb <= (#[trigger] nx.outs[k]).v() <= hb by { if k < o1.len() { assert(nx.outs[k] == o1[k]); } }
        assert forall|j: int| 1 <= j < nx.outs.len() implies -wb <= (#[trigger] nx.outs[j]).v() - r * nx.outs[j - 1].v() <= wb by {
            if j < o1.len() { assert(nx.outs[j] == o1[j]); assert(nx.outs[j - 1] == o1[j - 1]); }
            else { assert(nx.outs[j].v() == cc); assert(nx.outs[j - 1] == o1[last - 1]); }
        }
    }
}
pub proof fn lemma_cyber_cycle_bibo(i: CyberCycleOwn, h: Seq<T>, b: real, rho: real, ub: real, wb: real, hb: real)
    requires i.n >= 3, b >= 0real, all_within(h, b), i.vals.len() == 0, i.outs.len() == 0,
        -rho <= 1real - i.alpha.v() <= rho, 0real <= rho < 1real,
        ub == r_powi(1real - (5real / 10real) * i.alpha.v(), 2) * (4real * b), (1real - rho) * wb == ub, (1real - rho) * hb == wb
    ensures ({ let s = run::<CyberCycle<Echo>>((None::<T>, i), h); s.1.alpha == i.alpha && s.1.n == i.n && cc_within(s.1, b, wb, hb) })
    decreases h.len()
{
    if h.len() > 0 {
        let hd = h.drop_last(); let y = h.last();
        assert(-b <= y.v() <= b) by { assert(h.last() == h[h.len() - 1]); }
        assert(all_within(hd, b)) by { assert forall|k: int| 0 <= k < hd.len() implies -b <= (#[trigger] hd[k]).v() <= b by { assert(hd[k] == h[k]); } }
        lemma_cyber_cycle_bibo(i, hd, b, rho, ub, wb, hb);
        let s = run::<CyberCycle<Echo>>((None::<T>, i), hd);
        lemma_cyber_cycle_bibo_step(s.1, y, b, rho, ub, wb, hb);
    } else {
        assert(run::<CyberCycle<Echo>>((None::<T>, i), h) == (None::<T>, i));
    }
}

// ---- the contraction bound follows from the coefficient clauses proved on the constructors (rho := |1 - alpha|)
pub open spec fn abs_r(x: real) -> real { if x >= 0real { x } else { -x } }
// RoofingFilter::new ensures 0 < alpha < 2 for N >= 3 (clause `new [alpha]`)
pub proof fn lemma_roofing_filter_bibo_new(i: RoofingFilterOwn, h: Seq<T>, mlen: nat, b: real, ub: real, wb: real, hb: real, m: real)
    requires mlen >= 1, b >= 0real, m >= 0real, all_within(h, b), 0real < i.alpha.v() < 2real,
        i.x1.v() == 0real, i.x2.v() == 0real, i.h1.v() == 0real, i.h2.v() == 0real,
        i.ss.1.c1 == mk(ss_c1(mlen)), i.ss.1.c2 == mk(ss_b1(mlen)), i.ss.1.c3 == mk(ss_c3(mlen)), i.ss.1.f1.v() == 0real, i.ss.1.f2.v() == 0real, i.ss.1.x1.v() == 0real,
        ub == r_powi(1real - rdiv(i.alpha.v(), 2real), 2) * (4real * b),
        (1real - abs_r(1real - i.alpha.v())) * wb == ub, (1real - abs_r(1real - i.alpha.v())) * hb == wb,
        (1real - ss_a1(mlen)) * m == ss_c1(mlen) * hb
    ensures ({ let s = run::<RoofingFilter<Echo>>((None::<T>, i), h); s.1.alpha == i.alpha && s.1.n == i.n && roof_within(s.1, mlen, b, wb, hb, m) })
{
    lemma_roofing_filter_bibo(i, h, mlen, b, abs_r(1real - i.alpha.v()), ub, wb, hb, m);
}
// CyberCycle::new sets alpha = 2 / (N + 1), N >= 3:  1/2 <= 1 - alpha < 1
pub proof fn lemma_cyber_cycle_bibo_new(i: CyberCycleOwn, h: Seq<T>, b: real, ub: real, wb: real, hb: real)
    requires i.n >= 3, b >= 0real, all_within(h, b), i.vals.len() == 0, i.outs.len() == 0, i.alpha == mk(rdiv(2real, (i.n as real) + 1real)),
        ub == r_powi(1real - (5real / 10real) * i.alpha.v(), 2) * (4real * b), i.alpha.v() * wb == ub, i.alpha.v() * hb == wb
    ensures ({ let s = run::<CyberCycle<Echo>>((None::<T>, i), h); s.1.alpha == i.alpha && s.1.n == i.n && cc_within(s.1, b, wb, hb) })
{
    let a = i.alpha.v(); let k = (i.n as real) + 1real;
    lemma_rdiv_mul(2real, k);
    assert(a * k == 2real);
    assert(0real < a && a <= 5real / 10real) by(nonlinear_arith) requires a * k == 2real, k >= 4real;
    assert((1real - (1real - a)) * wb == ub && (1real - (1real - a)) * hb == wb);
    lemma_cyber_cycle_bibo(i, h, b, 1real - a, ub, wb, hb);
}
