// C09, bounded input => bounded output over whole histories, with bounds that do not depend on the length of the stream.
// LaguerreFilter: L0 is a convex combination (|L0| <= b); every further ladder stage is an all-pass section
//   L_k' = -g L_{k-1}' + L_{k-1} + g L_k,   so  |L_k| <= b_k  with  (1-g) b_k == (1+g) b_{k-1}   (b_0 = b):
// the bounds are fixed by gamma and the input bound alone.  The output (L0 + 2 L1 + 2 L2 + L3)/6 is then within (b + 2 b1 + 2 b2 + b3)/6.
use crate::props::c09_stability::*;
use crate::props::c09_history::*;

pub proof fn lemma_convex_stage(g: real, y: real, c: real, b: real)
    requires 0real <= g <= 1real, -b <= y <= b, -b <= c <= b
    ensures -b <= (1real - g) * y + g * c <= b
{
    assert((1real - g) * y <= (1real - g) * b) by(nonlinear_arith) requires 0real <= g <= 1real, y <= b;
    assert(g * c <= g * b) by(nonlinear_arith) requires 0real <= g, c <= b;
    assert((1real - g) * y >= (1real - g) * (-b)) by(nonlinear_arith) requires 0real <= g <= 1real, y >= -b;
    assert(g * c >= g * (-b)) by(nonlinear_arith) requires 0real <= g, c >= -b;
    assert((1real - g) * b + g * b == b) by(nonlinear_arith);
    assert((1real - g) * (-b) + g * (-b) == -b) by(nonlinear_arith);
}
// one all-pass stage: new value of the previous stage n, old value of the previous stage p (both within bp), own old value c (within bk)
pub proof fn lemma_allpass_stage(g: real, n: real, p: real, c: real, bp: real, bk: real)
    requires 0real <= g < 1real, -bp <= n <= bp, -bp <= p <= bp, -bk <= c <= bk, (1real - g) * bk == (1real + g) * bp
    ensures -bk <= -g * n + p + g * c <= bk
{
    assert(-g * n <= g * bp) by(nonlinear_arith) requires 0real <= g, n >= -bp;
    assert(-g * n >= -(g * bp)) by(nonlinear_arith) requires 0real <= g, n <= bp;
    assert(g * c <= g * bk) by(nonlinear_arith) requires 0real <= g, c <= bk;
    assert(g * c >= -(g * bk)) by(nonlinear_arith) requires 0real <= g, c >= -bk;
    assert(g * bp + bp + g * bk == bk) by(nonlinear_arith) requires (1real - g) * bk == (1real + g) * bp;
}
// the stage bounds are ordered: b <= b1 when (1-g) b1 == (1+g) b, 0 <= g < 1, b >= 0
pub proof fn lemma_stage_bound_grows(g: real, bp: real, bk: real)
    requires 0real <= g < 1real, bp >= 0real, (1real - g) * bk == (1real + g) * bp
    ensures bk >= bp
{
    assert(bk >= bp) by(nonlinear_arith) requires 0real <= g < 1real, bp >= 0real, (1real - g) * bk == (1real + g) * bp;
}
pub open spec fn lag_within(o: LaguerreFilterOwn, b: real, b1: real, b2: real, b3: real) -> bool {
    -b <= o.l0.v() <= b && -b1 <= o.l1.v() <= b1 && -b2 <= o.l2.v() <= b2 && -b3 <= o.l3.v() <= b3
}
pub proof fn lemma_laguerre_filter_bibo(i: LaguerreFilterOwn, h: Seq<T>, b: real, b1: real, b2: real, b3: real)
    requires !i.started, 0real <= i.gamma.v() < 1real, all_within(h, b), h.len() > 0,
        (1real - i.gamma.v()) * b1 == (1real + i.gamma.v()) * b, (1real - i.gamma.v()) * b2 == (1real + i.gamma.v()) * b1, (1real - i.gamma.v()) * b3 == (1real + i.gamma.v()) * b2
    ensures ({ let s = run::<LaguerreFilter<Echo>>((None::<T>, i), h);
               s.1.gamma == i.gamma && s.1.started && lag_within(s.1, b, b1, b2, b3)
               && s.1.f.is_some() && -(b + 2real * b1 + 2real * b2 + b3) <= 6real * s.1.f.unwrap().v() <= b + 2real * b1 + 2real * b2 + b3 })
    decreases h.len()
{
    let g = i.gamma.v();
    let hd = h.drop_last(); let y = h.last();
    assert(-b <= y.v() <= b) by { assert(h.last() == h[h.len() - 1]); }
    assert(b >= 0real);
    lemma_stage_bound_grows(g, b, b1); lemma_stage_bound_grows(g, b1, b2); lemma_stage_bound_grows(g, b2, b3);
    if hd.len() > 0 {
        assert(all_within(hd, b)) by { assert forall|k: int| 0 <= k < hd.len() implies -b <= (#[trigger] hd[k]).v() <= b by { assert(hd[k] == h[k]); } }
        lemma_laguerre_filter_bibo(i, hd, b, b1, b2, b3);
        let s = run::<LaguerreFilter<Echo>>((None::<T>, i), hd);
        let o = s.1;
        let l0 = (1real - g) * y.v() + g * o.l0.v();
        let l1 = -g * l0 + o.l0.v() + g * o.l1.v();
        let l2 = -g * l1 + o.l1.v() + g * o.l2.v();
        let l3 = -g * l2 + o.l2.v() + g * o.l3.v();
        lemma_convex_stage(g, y.v(), o.l0.v(), b);
        lemma_allpass_stage(g, l0, o.l0.v(), o.l1.v(), b, b1);
        lemma_allpass_stage(g, l1, o.l1.v(), o.l2.v(), b1, b2);
        lemma_allpass_stage(g, l2, o.l2.v(), o.l3.v(), b2, b3);
        let n = laguerre_filter_own_step(o, y);
        assert(n.l0.v() == l0 && n.l1.v() == l1 && n.l2.v() == l2 && n.l3.v() == l3);
        assert(n.f == Some(mk(lag_out(l0, l1, l2, l3))));
        lemma_rdiv_mul(l0 + 2real * l1 + 2real * l2 + l3, 6real);
    } else {
        let s0 = run::<LaguerreFilter<Echo>>((None::<T>, i), hd);
        assert(s0 == (None::<T>, i));
        let n = laguerre_filter_own_step(i, y);
        assert(n.l0 == y && n.l1 == y && n.l2 == y && n.l3 == y);
        lemma_rdiv_mul(y.v() + 2real * y.v() + 2real * y.v() + y.v(), 6real);
    }
}

// ---- SuperSmoother: the two-pole section with input.  Input samples within [-b, b] give a forcing term |u| <= c1 b (c1 = 1 - b1 + a1^2 > 0);
// the Lyapunov form of the state then never exceeds m^2 with (1 - a1) m == c1 b  (lemma_two_pole_forced), and it dominates the output:
// (1 - cos^2) f^2 <= m^2.  Neither m nor the cosine depends on the length of the stream.
pub open spec fn ss_cos(n: nat) -> real { r_cos(rdiv(44422real / 10000real, n as real)) }
pub proof fn lemma_super_smoother_bibo(i: SuperSmootherOwn, h: Seq<T>, n: nat, b: real, m: real)
    requires n >= 1, i.c1 == mk(ss_c1(n)), i.c2 == mk(ss_b1(n)), i.c3 == mk(ss_c3(n)), i.f1.v() == 0real, i.f2.v() == 0real, i.x1.v() == 0real,
        b >= 0real, m >= 0real, all_within(h, b), (1real - ss_a1(n)) * m == ss_c1(n) * b
    ensures ({ let s = run::<SuperSmoother<Echo>>((None::<T>, i), h);
               s.1.c1 == i.c1 && s.1.c2 == i.c2 && s.1.c3 == i.c3 && -b <= s.1.x1.v() <= b
               && ss_form(n, s.1.f1.v(), s.1.f2.v()) <= m * m
               && (1real - ss_cos(n) * ss_cos(n)) * (s.1.f1.v() * s.1.f1.v()) <= m * m })
    decreases h.len()
{
    lemma_ss_coeffs(n);
    let a = ss_a1(n); let c = ss_cos(n);
    ax_cos_bound(rdiv(44422real / 10000real, n as real));
    if h.len() > 0 {
        let hd = h.drop_last(); let y = h.last();
        assert(-b <= y.v() <= b) by { assert(h.last() == h[h.len() - 1]); }
        assert(all_within(hd, b)) by { assert forall|k: int| 0 <= k < hd.len() implies -b <= (#[trigger] hd[k]).v() <= b by { assert(hd[k] == h[k]); } }
        lemma_super_smoother_bibo(i, hd, n, b, m);
        let s = run::<SuperSmoother<Echo>>((None::<T>, i), hd);
        let o = s.1;
        let c1 = ss_c1(n);
        assert(c1 > 0real);
        let w = y.v() + o.x1.v();
        let u = rdiv(c1 * w, 2real);
        lemma_rdiv_mul(c1 * w, 2real);
        assert(c1 * w <= c1 * (2real * b)) by(nonlinear_arith) requires c1 > 0real, w <= 2real * b;
        assert(c1 * w >= -(c1 * (2real * b))) by(nonlinear_arith) requires c1 > 0real, w >= -(2real * b);
        assert(c1 * (2real * b) == 2real * (c1 * b)) by(nonlinear_arith);
        let ub = c1 * b;
        assert(ub >= 0real) by(nonlinear_arith) requires ub == c1 * b, c1 > 0real, b >= 0real;
        assert(-ub <= u <= ub);
        lemma_two_pole_forced(a, c, o.f2.v(), o.f1.v(), u, m, ub);
        let nx = super_smoother_own_step(o, y);
        assert(nx.f1.v() == u + (ss_b1(n) * o.f1.v() + ss_c3(n) * o.f2.v()));
        assert(nx.f2 == o.f1 && nx.x1 == y);
        lemma_two_pole_form_dominates(a, c, nx.f1.v(), nx.f2.v());
    } else {
        assert(run::<SuperSmoother<Echo>>((None::<T>, i), h) == (None::<T>, i));
        assert(ss_form(n, 0real, 0real) == 0real) by(nonlinear_arith) requires ss_form(n, 0real, 0real) == 0real * 0real - ss_b1(n) * (0real * 0real) + (ss_a1(n) * ss_a1(n)) * (0real * 0real);
        assert(m * m >= 0real) by(nonlinear_arith);
        assert((1real - c * c) * (0real * 0real) == 0real) by(nonlinear_arith);
    }
}
