// C10: linear views map a x + b y to a view(x) + b view(y).  One-step lemmas: the own-step and the output are linear maps of
// (state, input); by induction over equal-length histories (the abstract states keep equal shape) this is superposition at every step.
// Proved here: Sma, Cumulative (window sums), Ema, SuperSmoother; c10_more: Alma, CyberCycle, RoofingFilter; c10_history: LaguerreFilter
// and the induction over whole histories for all eight views.

pub open spec fn lin(u: Seq<T>, w: Seq<T>, a: real, b: real) -> Seq<T> { Seq::new(u.len(), |i: int| mk(a * u[i].v() + b * w[i].v())) }
pub proof fn lemma_sum_lin(u: Seq<T>, w: Seq<T>, a: real, b: real)
    requires u.len() == w.len()
    ensures sum(lin(u, w, a, b)) == a * sum(u) + b * sum(w)
    decreases u.len()
{
    if u.len() > 0 {
        lemma_sum_lin(u.drop_last(), w.drop_last(), a, b);
        assert(lin(u, w, a, b).drop_last() =~= lin(u.drop_last(), w.drop_last(), a, b));
        assert(lin(u, w, a, b).last().v() == a * u.last().v() + b * w.last().v());
        lemma_lin_add(a, b, sum(u.drop_last()), sum(w.drop_last()), u.last().v(), w.last().v());
    } else {
        assert(lin(u, w, a, b) =~= Seq::<T>::empty());
        assert(a * 0real + b * 0real == 0real) by(nonlinear_arith);
    }
}
pub proof fn lemma_wpush_lin(u: Seq<T>, w: Seq<T>, x: T, y: T, n: nat, a: real, b: real)
    requires u.len() == w.len()
    ensures wpush(lin(u, w, a, b), mk(a * x.v() + b * y.v()), n) =~= lin(wpush(u, x, n), wpush(w, y, n), a, b)
{
}
// Sma / Cumulative: own-step and output are linear
pub proof fn lemma_sma_linear(o1: SmaOwn, o2: SmaOwn, x: T, y: T, a: real, b: real)
    requires o1.n == o2.n, o1.w.len() == o2.w.len(), o1.n >= 1
    ensures ({ let o = SmaOwn { n: o1.n, w: lin(o1.w, o2.w, a, b) }; let z = mk(a * x.v() + b * y.v());
        sma_own_step(o, z).w =~= lin(sma_own_step(o1, x).w, sma_own_step(o2, y).w, a, b)
        && (match (sma_own_out(o1), sma_own_out(o2), sma_own_out(o)) {
              (Some(p), Some(q), Some(r)) => r.v() == a * p.v() + b * q.v(), (None, None, None) => true, _ => false }) })
{
    lemma_wpush_lin(o1.w, o2.w, x, y, o1.n, a, b);
    if o1.w.len() >= o1.n {
        let k = o1.w.len() as real;
        lemma_sum_lin(o1.w, o2.w, a, b);
        lemma_rdiv_mul(sum(o1.w), k); lemma_rdiv_mul(sum(o2.w), k);
        lemma_lin_div(a, b, sum(o1.w), sum(o2.w), k, rdiv(sum(o1.w), k), rdiv(sum(o2.w), k));
        lemma_rdiv_unique(a * rdiv(sum(o1.w), k) + b * rdiv(sum(o2.w), k), sum(lin(o1.w, o2.w, a, b)), k);
    }
}
pub proof fn lemma_cumulative_linear(o1: CumulativeOwn, o2: CumulativeOwn, x: T, y: T, a: real, b: real)
    requires o1.n == o2.n, o1.w.len() == o2.w.len()
    ensures ({ let o = CumulativeOwn { n: o1.n, w: lin(o1.w, o2.w, a, b) }; let z = mk(a * x.v() + b * y.v());
        cumulative_own_step(o, z).w =~= lin(cumulative_own_step(o1, x).w, cumulative_own_step(o2, y).w, a, b)
        && (match (cumulative_own_out(o1), cumulative_own_out(o2), cumulative_own_out(o)) {
              (Some(p), Some(q), Some(r)) => r.v() == a * p.v() + b * q.v(), (None, None, None) => true, _ => false }) })
{
    lemma_wpush_lin(o1.w, o2.w, x, y, o1.n, a, b);
    lemma_sum_lin(o1.w, o2.w, a, b);
}
// Ema (same alpha, same window length, same number of observations)
pub proof fn lemma_ema_linear(o1: EmaOwn, o2: EmaOwn, x: T, y: T, a: real, b: real)
    requires o1.n == o2.n, o1.alpha == o2.alpha, o1.k == o2.k
    ensures ({ let o = EmaOwn { n: o1.n, alpha: o1.alpha, k: o1.k, e: mk(a * o1.e.v() + b * o2.e.v()) }; let z = mk(a * x.v() + b * y.v());
        ema_own_step(o, z).e.v() == a * ema_own_step(o1, x).e.v() + b * ema_own_step(o2, y).e.v() && ema_own_step(o, z).k == ema_own_step(o1, x).k })
{
    let w = ema_weight(o1);
    lemma_lin_mul(a, b, x.v(), y.v(), w);
    lemma_lin_mul(a, b, o1.e.v(), o2.e.v(), 1real - w);
    lemma_lin_add(a, b, x.v() * w, y.v() * w, o1.e.v() * (1real - w), o2.e.v() * (1real - w));
}
// SuperSmoother (same coefficients)
pub proof fn lemma_super_smoother_linear(o1: SuperSmootherOwn, o2: SuperSmootherOwn, x: T, y: T, a: real, b: real)
    requires o1.n == o2.n, o1.k == o2.k, o1.c1 == o2.c1, o1.c2 == o2.c2, o1.c3 == o2.c3
    ensures ({ let o = SuperSmootherOwn { n: o1.n, k: o1.k, c1: o1.c1, c2: o1.c2, c3: o1.c3, f1: mk(a * o1.f1.v() + b * o2.f1.v()),
                                         f2: mk(a * o1.f2.v() + b * o2.f2.v()), x1: mk(a * o1.x1.v() + b * o2.x1.v()) };
        let z = mk(a * x.v() + b * y.v());
        super_smoother_own_step(o, z).f1.v() == a * super_smoother_own_step(o1, x).f1.v() + b * super_smoother_own_step(o2, y).f1.v()
        && super_smoother_own_step(o, z).f2.v() == a * super_smoother_own_step(o1, x).f2.v() + b * super_smoother_own_step(o2, y).f2.v()
        && super_smoother_own_step(o, z).x1.v() == a * super_smoother_own_step(o1, x).x1.v() + b * super_smoother_own_step(o2, y).x1.v() })
{
    let c1 = o1.c1.v(); let c2 = o1.c2.v(); let c3 = o1.c3.v();
    lemma_lin_add(a, b, x.v(), y.v(), o1.x1.v(), o2.x1.v());
    lemma_lin_mul(a, b, x.v() + o1.x1.v(), y.v() + o2.x1.v(), c1);
    let p = rdiv(c1 * (x.v() + o1.x1.v()), 2real); let q = rdiv(c1 * (y.v() + o2.x1.v()), 2real);
    lemma_rdiv_mul(c1 * (x.v() + o1.x1.v()), 2real); lemma_rdiv_mul(c1 * (y.v() + o2.x1.v()), 2real);
    lemma_lin_div(a, b, c1 * (x.v() + o1.x1.v()), c1 * (y.v() + o2.x1.v()), 2real, p, q);
    lemma_rdiv_unique(a * p + b * q, c1 * ((a * x.v() + b * y.v()) + (a * o1.x1.v() + b * o2.x1.v())), 2real);
    lemma_lin_mul(a, b, o1.f1.v(), o2.f1.v(), c2);
    lemma_lin_mul(a, b, o1.f2.v(), o2.f2.v(), c3);
    lemma_lin_add(a, b, p, q, c2 * o1.f1.v(), c2 * o2.f1.v());
    lemma_lin_add(a, b, p + c2 * o1.f1.v(), q + c2 * o2.f1.v(), c3 * o1.f2.v(), c3 * o2.f2.v());
}
// a constant stream c is a fixed point of the SuperSmoother recursion because c1 + c2 + c3 == 1 (invariant [U])
pub proof fn lemma_super_smoother_fixed_point(o: SuperSmootherOwn, c: T)
    requires o.c1.v() == 1real - o.c2.v() - o.c3.v(), o.f1 == c, o.f2 == c, o.x1 == c
    ensures super_smoother_own_step(o, c).f1.v() == c.v()
{
    let c1 = o.c1.v(); let cv = c.v();
    assert(c1 * (cv + cv) == (c1 * cv) * 2real) by(nonlinear_arith);
    lemma_rdiv_unique(c1 * cv, c1 * (cv + cv), 2real);
    assert(c1 * cv + o.c2.v() * cv + o.c3.v() * cv == (c1 + o.c2.v() + o.c3.v()) * cv) by(nonlinear_arith);
    assert(1real * cv == cv) by(nonlinear_arith);
}
// Ema and LaguerreFilter reproduce a constant from their first output
pub proof fn lemma_ema_constant(o: EmaOwn, c: T)
    requires o.k == 0 || o.e == c
    ensures ema_own_step(o, c).e.v() == c.v()
{
    let w = ema_weight(o);
    assert(c.v() * w + c.v() * (1real - w) == c.v()) by(nonlinear_arith);
}
pub proof fn lemma_laguerre_filter_constant(o: LaguerreFilterOwn, c: T)
    requires !o.started || (o.l0 == c && o.l1 == c && o.l2 == c && o.l3 == c)
    ensures ({ let s = laguerre_filter_own_step(o, c); s.l0.v() == c.v() && s.l1.v() == c.v() && s.l2.v() == c.v() && s.l3.v() == c.v() && s.f == Some(c) })
{
    let g = o.gamma.v(); let cv = c.v();
    assert((1real - g) * cv + g * cv == cv) by(nonlinear_arith);
    assert(-g * cv + cv + g * cv == cv) by(nonlinear_arith);
    assert(cv + 2real * cv + 2real * cv + cv == cv * 6real) by(nonlinear_arith);
    lemma_rdiv_unique(cv, cv + 2real * cv + 2real * cv + cv, 6real);
}
