// shared by several properties: the window of the last min(|h|, N) values of a history and how wpush maintains it
// the last min(|h|, n) values of h
pub open spec fn win(h: Seq<T>, n: nat) -> Seq<T> {
    if h.len() <= n { h } else { h.subrange(h.len() - n, h.len() as int) }
}
pub proof fn lemma_win_step(h: Seq<T>, n: nat)
    requires h.len() > 0, n >= 1
    ensures wpush(win(h.drop_last(), n), h.last(), n) =~= win(h, n)
{
    let g = h.drop_last();
    if g.len() < n {
        assert(win(g, n) == g);
        assert(g.push(h.last()) =~= h);
    } else if g.len() == n {
        assert(win(g, n) == g);
        assert(g.drop_first().push(h.last()) =~= h.subrange(h.len() - n, h.len() as int));
    } else {
        let w = g.subrange(g.len() - n, g.len() as int);
        assert(w.drop_first().push(h.last()) =~= h.subrange(h.len() - n, h.len() as int));
    }
}
// two histories that agree on their last k >= n values have the same window
pub proof fn lemma_win_suffix(h1: Seq<T>, h2: Seq<T>, n: nat, k: nat)
    requires k >= n, h1.len() >= k, h2.len() >= k,
        h1.subrange(h1.len() - k, h1.len() as int) == h2.subrange(h2.len() - k, h2.len() as int),
    ensures win(h1, n) == win(h2, n)
{
    let s1 = h1.subrange(h1.len() - k, h1.len() as int); let s2 = h2.subrange(h2.len() - k, h2.len() as int);
    assert(win(h1, n) =~= win(s1, n));
    assert(win(h2, n) =~= win(s2, n));
}
pub open spec fn echo_of(h: Seq<T>) -> Option<T> { if h.len() == 0 { None } else { Some(h.last()) } }

// ---- views with a predecessor / held component
pub open spec fn pred_of(h: Seq<T>, n: nat) -> T { if h.len() == 0 { mk(0real) } else if h.len() <= n { h[0] } else { h[h.len() - n - 1] } }
pub proof fn lemma_pred_step(h: Seq<T>, n: nat)
    requires h.len() > 0, n >= 1
    ensures rsi_pred(win(h.drop_last(), n), pred_of(h.drop_last(), n), h.last(), n) == pred_of(h, n)
{
    let g = h.drop_last();
    if g.len() == 0 { assert(h[0] == h.last()); }
    else if g.len() < n { assert(g[0] == h[0]); }
    else if g.len() == n { assert(win(g, n)[0] == g[0]); assert(g[0] == h[0]); assert(h[h.len() - n - 1] == h[0]); }
    else { assert(win(g, n)[0] == g[g.len() - n]); assert(g[g.len() - n] == h[h.len() - n - 1]); }
}
// Roc: base = x_{t-N} (the first value while fewer than N+1 values exist)
pub open spec fn roc_base_of(h: Seq<T>, n: nat) -> Option<T> { if h.len() == 0 { None } else if h.len() <= n { Some(h[0]) } else { Some(h[h.len() - n - 1]) } }
