// C14: combinators are pointwise, stateless functions of their children's CURRENT outputs (generic in the child types).
pub proof fn lemma_add_pointwise<A: View, B: View>(sa: A::S, sb: B::S)
    ensures Add::<A, B>::out((sa, sb)) == (match (A::out(sa), B::out(sb)) { (Some(x), Some(y)) => Some(mk(x.v() + y.v())), _ => None })
{}
pub proof fn lemma_subtract_pointwise<A: View, B: View>(sa: A::S, sb: B::S)
    ensures Subtract::<A, B>::out((sa, sb)) == (match (A::out(sa), B::out(sb)) { (Some(x), Some(y)) => Some(mk(x.v() - y.v())), _ => None })
{}
pub proof fn lemma_multiply_pointwise<A: View, B: View>(sa: A::S, sb: B::S)
    ensures Multiply::<A, B>::out((sa, sb)) == (match (A::out(sa), B::out(sb)) { (Some(x), Some(y)) => Some(mk(x.v() * y.v())), _ => None })
{}
pub proof fn lemma_divide_pointwise<A: View, B: View>(sa: A::S, sb: B::S)
    ensures Divide::<A, B>::out((sa, sb)) == (match (A::out(sa), B::out(sb)) { (Some(x), Some(y)) => Some(mk(rdiv(x.v(), y.v()))), _ => None })
{}
pub proof fn lemma_tanh_pointwise<V: View>(s: V::S)
    ensures Tanh::<V>::out(s) == (match V::out(s) { Some(x) => Some(mk(r_tanh(x.v()))), None => None })
{}
// GTE / LTE: after any delivered value y the output is max(y, clip) / min(y, clip), whatever the earlier state was (no memory)
pub proof fn lemma_gte_memoryless(o1: GTEOwn, o2: GTEOwn, y: T)
    requires o1.clip == o2.clip
    ensures gte_own_out(gte_own_step(o1, y)) == gte_own_out(gte_own_step(o2, y)),
        gte_own_out(gte_own_step(o1, y)) == Some(if y.v() >= o1.clip.v() { y } else { o1.clip })
{}
pub proof fn lemma_lte_memoryless(o1: LTEOwn, o2: LTEOwn, y: T)
    requires o1.clip == o2.clip
    ensures lte_own_out(lte_own_step(o1, y)) == lte_own_out(lte_own_step(o2, y)),
        lte_own_out(lte_own_step(o1, y)) == Some(if y.v() <= o1.clip.v() { y } else { o1.clip })
{}
pub proof fn lemma_echo_constant(s: Option<T>, c: T, x: T)
    ensures Echo::out(Echo::step(s, x)) == Some(x), Constant::out(Constant::step(c, x)) == Some(c)
{}
