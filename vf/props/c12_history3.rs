// C12 at whole-history level for recursive normalised views (over Echo): the state of the run on a*h is the scaled state of the run
// on h at every step, and the output is the same - by induction with the one-step lemmas of c12_recursive / c12_scale_more.
use crate::props::c00_window::*;
use crate::props::c00_affine::*;
use crate::props::c12_recursive::*;
use crate::props::c12_scale_more::*;
use crate::props::c12_negation::*;

pub proof fn lemma_affine_drop_last(h: Seq<T>, a: real, b: real)
    requires h.len() > 0
    ensures affine(h, a, b).drop_last() =~= affine(h.drop_last(), a, b), affine(h, a, b).last() == mk(a * h.last().v() + b)
{
}
// ---- LaguerreRSI
pub open spec fn lrsi_scaled(o: LaguerreRSIOwn, a: real) -> LaguerreRSIOwn {
    LaguerreRSIOwn { gamma: o.gamma, rows: o.rows, l0: mk(a * o.l0.v()), l1: mk(a * o.l1.v()), l2: mk(a * o.l2.v()), l3: mk(a * o.l3.v()), value: o.value }
}
pub proof fn lemma_laguerre_rsi_history_scale(i: LaguerreRSIOwn, h: Seq<T>, a: real)
    requires a > 0real, i.l0 == mk(0real), i.l1 == mk(0real), i.l2 == mk(0real), i.l3 == mk(0real)
    ensures ({ let s = run::<LaguerreRSI<Echo>>((None::<T>, i), h); let t = run::<LaguerreRSI<Echo>>((None::<T>, i), affine(h, a, 0real));
               t.1 == lrsi_scaled(s.1, a) && LaguerreRSI::<Echo>::out(t) == LaguerreRSI::<Echo>::out(s) })
    decreases h.len()
{
    if h.len() > 0 {
        lemma_laguerre_rsi_history_scale(i, h.drop_last(), a);
        lemma_affine_drop_last(h, a, 0real);
        let s = run::<LaguerreRSI<Echo>>((None::<T>, i), h.drop_last());
        lemma_laguerre_rsi_scale(s.1, h.last(), a);
        assert(mk(a * h.last().v() + 0real) == mk(a * h.last().v()));
    } else {
        assert(affine(h, a, 0real) =~= Seq::<T>::empty());
        assert(a * 0real == 0real) by(nonlinear_arith);
    }
}
// ---- TrendFlex / ReFlex
pub open spec fn tf_scaled(o: TrendFlexOwn, a: real) -> TrendFlexOwn { TrendFlexOwn { n: o.n, x1: mk(a * o.x1.v()), ms: mk((a * a) * o.ms.v()), q: scaled(o.q, a), o: o.o } }
pub open spec fn rf_scaled(o: ReFlexOwn, a: real) -> ReFlexOwn { ReFlexOwn { n: o.n, x1: mk(a * o.x1.v()), ms: mk((a * a) * o.ms.v()), q: scaled(o.q, a), o: o.o } }
pub proof fn lemma_trend_flex_history_scale(i: TrendFlexOwn, h: Seq<T>, a: real)
    requires a > 0real, i.n >= 1, i.x1 == mk(0real), i.ms == mk(0real), i.q.len() == 0
    ensures ({ let s = run::<TrendFlex<Echo>>((None::<T>, i), h); let t = run::<TrendFlex<Echo>>((None::<T>, i), affine(h, a, 0real));
               s.1.n == i.n && t.1 == tf_scaled(s.1, a) && TrendFlex::<Echo>::out(t) == TrendFlex::<Echo>::out(s) })
    decreases h.len()
{
    if h.len() > 0 {
        lemma_trend_flex_history_scale(i, h.drop_last(), a);
        lemma_affine_drop_last(h, a, 0real);
        let s = run::<TrendFlex<Echo>>((None::<T>, i), h.drop_last());
        lemma_trend_flex_scale(s.1, h.last(), a);
        assert(mk(a * h.last().v() + 0real) == mk(a * h.last().v()));
        let u = tf_step(tf_scaled(s.1, a), mk(a * h.last().v())); let v = tf_scaled(tf_step(s.1, h.last()), a);
        assert(u.q =~= v.q);
    } else {
        assert(affine(h, a, 0real) =~= Seq::<T>::empty());
        assert(a * 0real == 0real) by(nonlinear_arith);
        assert((a * a) * 0real == 0real) by(nonlinear_arith);
        assert(tf_scaled(i, a).q =~= i.q);
    }
}
pub proof fn lemma_re_flex_history_scale(i: ReFlexOwn, h: Seq<T>, a: real)
    requires a > 0real, i.n >= 1, i.x1 == mk(0real), i.ms == mk(0real), i.q.len() == 0
    ensures ({ let s = run::<ReFlex<Echo>>((None::<T>, i), h); let t = run::<ReFlex<Echo>>((None::<T>, i), affine(h, a, 0real));
               s.1.n == i.n && t.1 == rf_scaled(s.1, a) && ReFlex::<Echo>::out(t) == ReFlex::<Echo>::out(s) })
    decreases h.len()
{
    if h.len() > 0 {
        lemma_re_flex_history_scale(i, h.drop_last(), a);
        lemma_affine_drop_last(h, a, 0real);
        let s = run::<ReFlex<Echo>>((None::<T>, i), h.drop_last());
        lemma_re_flex_scale(s.1, h.last(), a);
        assert(mk(a * h.last().v() + 0real) == mk(a * h.last().v()));
        let u = rf_step(rf_scaled(s.1, a), mk(a * h.last().v())); let v = rf_scaled(rf_step(s.1, h.last()), a);
        assert(u.q =~= v.q);
    } else {
        assert(affine(h, a, 0real) =~= Seq::<T>::empty());
        assert(a * 0real == 0real) by(nonlinear_arith);
        assert((a * a) * 0real == 0real) by(nonlinear_arith);
        assert(rf_scaled(i, a).q =~= i.q);
    }
}
// ---- negation: the delay line and x1 change sign, the leaky mean square is even, the output is odd (held outputs included)
pub open spec fn neg_opt(o: Option<T>) -> Option<T> { match o { Some(x) => Some(mk(-x.v())), None => None::<T> } }
pub open spec fn tf_negated(o: TrendFlexOwn) -> TrendFlexOwn { TrendFlexOwn { n: o.n, x1: mk(-1real * o.x1.v()), ms: o.ms, q: scaled(o.q, -1real), o: neg_opt(o.o) } }
pub open spec fn rf_negated(o: ReFlexOwn) -> ReFlexOwn { ReFlexOwn { n: o.n, x1: mk(-1real * o.x1.v()), ms: o.ms, q: scaled(o.q, -1real), o: neg_opt(o.o) } }
pub proof fn lemma_re_flex_negate(o: ReFlexOwn, y: T)
    requires o.n >= 1
    ensures ({ let os = ReFlexOwn { n: o.n, x1: mk(-1real * o.x1.v()), ms: o.ms, q: scaled(o.q, -1real), o: None::<T> };
               let s = rf_step(o, y); let t = rf_step(os, mk(-1real * y.v()));
               t.q =~= scaled(s.q, -1real) && t.ms == s.ms && t.x1.v() == -1real * s.x1.v()
               && (s.ms.v() > 0real ==> t.o.unwrap().v() == -s.o.unwrap().v()) })
{
    let a = -1real;
    let x1 = if o.q.len() == 0 { y } else { o.x1 };
    let q1 = flex_evict(o.q, o.n);
    lemma_scaled_index(o.q, a);
    assert(flex_evict(scaled(o.q, a), o.n) =~= scaled(q1, a));
    lemma_flex_filt_scale(q1, x1, y, o.n, a);
    let filt = flex_filt(q1, x1, y, o.n);
    let q2 = q1.push(mk(filt));
    assert(scaled(q1, a).push(mk(a * filt)) =~= scaled(q2, a));
    let nn = o.n as real;
    let slope = rdiv(q2[0].v() - filt, nn); lemma_rdiv_mul(q2[0].v() - filt, nn);
    lemma_scaled_index(q2, a);
    assert((a * slope) * nn == a * q2[0].v() - a * filt) by(nonlinear_arith) requires slope * nn == q2[0].v() - filt;
    lemma_rdiv_unique(a * slope, a * q2[0].v() - a * filt, nn);
    lemma_rf_dsum_scale(q2, filt, slope, q2.len() as int, a);
    let ds = rf_dsum(q2, filt, slope, q2.len() as int);
    let d = rdiv(ds, nn); lemma_rdiv_mul(ds, nn);
    assert((a * d) * nn == a * ds) by(nonlinear_arith) requires d * nn == ds;
    lemma_rdiv_unique(a * d, a * ds, nn);
    assert(a * d == -d) by(nonlinear_arith) requires a == -1real;
    lemma_flex_output_negate(d, o.ms.v());
}
pub proof fn lemma_trend_flex_history_negate(i: TrendFlexOwn, h: Seq<T>)
    requires i.n >= 1, i.x1 == mk(0real), i.q.len() == 0, i.o.is_none()
    ensures ({ let s = run::<TrendFlex<Echo>>((None::<T>, i), h); let t = run::<TrendFlex<Echo>>((None::<T>, i), negated(h));
               s.1.n == i.n && t.1 == tf_negated(s.1) && TrendFlex::<Echo>::out(t) == neg_opt(TrendFlex::<Echo>::out(s)) })
    decreases h.len()
{
    if h.len() > 0 {
        lemma_trend_flex_history_negate(i, h.drop_last());
        lemma_affine_drop_last(h, -1real, 0real);
        let s = run::<TrendFlex<Echo>>((None::<T>, i), h.drop_last());
        lemma_trend_flex_negate(s.1, h.last());
        let y = h.last(); let z = mk(-1real * y.v());
        assert(mk(-1real * y.v() + 0real) == z);
        let os = TrendFlexOwn { n: s.1.n, x1: mk(-1real * s.1.x1.v()), ms: s.1.ms, q: scaled(s.1.q, -1real), o: None::<T> };
        let u = tf_step(tf_negated(s.1), z); let v = tf_negated(tf_step(s.1, y)); let w = tf_step(os, z);
        assert(u.q == w.q && u.ms == w.ms && u.x1 == w.x1);
        assert(u.q =~= v.q);
    } else {
        assert(negated(h) =~= Seq::<T>::empty());
        assert(tf_negated(i).q =~= i.q);
    }
}
pub proof fn lemma_re_flex_history_negate(i: ReFlexOwn, h: Seq<T>)
    requires i.n >= 1, i.x1 == mk(0real), i.q.len() == 0, i.o.is_none()
    ensures ({ let s = run::<ReFlex<Echo>>((None::<T>, i), h); let t = run::<ReFlex<Echo>>((None::<T>, i), negated(h));
               s.1.n == i.n && t.1 == rf_negated(s.1) && ReFlex::<Echo>::out(t) == neg_opt(ReFlex::<Echo>::out(s)) })
    decreases h.len()
{
    if h.len() > 0 {
        lemma_re_flex_history_negate(i, h.drop_last());
        lemma_affine_drop_last(h, -1real, 0real);
        let s = run::<ReFlex<Echo>>((None::<T>, i), h.drop_last());
        lemma_re_flex_negate(s.1, h.last());
        let y = h.last(); let z = mk(-1real * y.v());
        assert(mk(-1real * y.v() + 0real) == z);
        let os = ReFlexOwn { n: s.1.n, x1: mk(-1real * s.1.x1.v()), ms: s.1.ms, q: scaled(s.1.q, -1real), o: None::<T> };
        let u = rf_step(rf_negated(s.1), z); let v = rf_negated(rf_step(s.1, y)); let w = rf_step(os, z);
        assert(u.q == w.q && u.ms == w.ms && u.x1 == w.x1);
        assert(u.q =~= v.q);
    } else {
        assert(negated(h) =~= Seq::<T>::empty());
        assert(rf_negated(i).q =~= i.q);
    }
}
// ---- EhlersFisherTransform over any moving average M: the min-max normalised value is unchanged by a x + b, so the moving average,
// the clamp and the Fisher recursion see identical values; only the raw window differs (no degenerate exception: a flat window stays flat)
use crate::props::c12_normalised::*;
pub open spec fn eft_aff<M: View>(o: EhlersFisherTransformOwn<M>, a: real, b: real) -> EhlersFisherTransformOwn<M> {
    EhlersFisherTransformOwn { n: o.n, w: affine(o.w, a, b), outs: o.outs, ma: o.ma }
}
pub proof fn lemma_eft_step_affine<M: View>(o: EhlersFisherTransformOwn<M>, y: T, a: real, b: real)
    requires a > 0real, o.n >= 1
    ensures eft_step::<M>(eft_aff(o, a, b), mk(a * y.v() + b)) == eft_aff(eft_step::<M>(o, y), a, b)
{
    let w1 = wpush(o.w, y, o.n); let z = mk(a * y.v() + b);
    let v1 = wpush(affine(o.w, a, b), z, o.n);
    assert(v1 =~= affine(w1, a, b));
    lemma_smin_affine(w1, a, b);
    assert(w1.last() == y);
    assert(v1.last() == z);
    if smax(w1) != smin(w1) {
        lemma_eft_norm_affine_invariant(w1, a, b);
    } else {
        assert(a * smax(w1) + b == a * smin(w1) + b);
    }
    if smax(v1) == smin(v1) {
        assert(a * (smax(w1) - smin(w1)) == 0real) by(nonlinear_arith) requires a * smax(w1) + b == a * smin(w1) + b;
        assert(smax(w1) == smin(w1)) by(nonlinear_arith) requires a * (smax(w1) - smin(w1)) == 0real, a > 0real;
    }
    let s = eft_step::<M>(eft_aff(o, a, b), z); let t = eft_aff(eft_step::<M>(o, y), a, b);
    assert(s.w =~= t.w);
}
pub proof fn lemma_eft_history_affine<M: View>(i: EhlersFisherTransformOwn<M>, h: Seq<T>, a: real, b: real)
    requires a > 0real, i.n >= 1, i.w.len() == 0
    ensures ({ let s = run::<EhlersFisherTransform<Echo, M>>((None::<T>, i), h); let t = run::<EhlersFisherTransform<Echo, M>>((None::<T>, i), affine(h, a, b));
               s.1.n == i.n && t.1 == eft_aff(s.1, a, b) && EhlersFisherTransform::<Echo, M>::out(t) == EhlersFisherTransform::<Echo, M>::out(s) })
    decreases h.len()
{
    if h.len() > 0 {
        lemma_eft_history_affine::<M>(i, h.drop_last(), a, b);
        lemma_affine_drop_last(h, a, b);
        let s = run::<EhlersFisherTransform<Echo, M>>((None::<T>, i), h.drop_last());
        lemma_eft_step_affine::<M>(s.1, h.last(), a, b);
    } else {
        assert(affine(h, a, b) =~= Seq::<T>::empty());
        assert(eft_aff(i, a, b).w =~= i.w);
    }
}
