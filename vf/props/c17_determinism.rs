// C17: views are deterministic values.  Everything here is generic in the view type V: only the trait contract is used, so it
// holds for every view and every chain.
//  (1) two instances in the same abstract state that receive the same input end in the same abstract state and report the same value;
//  (2) last() takes &self and its result is a function of the abstract state, so calling it any number of times changes nothing;
//  (3) whole histories: equal start, equal inputs => equal state and output at every step (by induction, since run is a function).
pub fn twin_update<V: View>(v1: &mut V, v2: &mut V, x: T)
    requires old(v1).inv(), old(v2).inv(), old(v1).abs() == old(v2).abs(), V::accepts(old(v1).abs(), x),
    ensures final(v1).inv(), final(v2).inv(), final(v1).abs() == final(v2).abs(),
{
    v1.update(x);
    v2.update(x);
}
pub fn twin_last<V: View>(v1: &V, v2: &V) -> (r: (Option<T>, Option<T>, Option<T>))
    requires v1.inv(), v2.inv(), v1.abs() == v2.abs(),
    ensures r.0 == r.1, r.0 == r.2,       // two instances agree, and a repeated call on the same instance agrees with the first
{
    let a = v1.last();
    let b = v2.last();
    let c = v1.last();
    (a, b, c)
}
pub proof fn lemma_run_deterministic<V: View>(s1: V::S, s2: V::S, h1: Seq<T>, h2: Seq<T>)
    requires s1 == s2, h1 == h2
    ensures run::<V>(s1, h1) == run::<V>(s2, h2), V::out(run::<V>(s1, h1)) == V::out(run::<V>(s2, h2))
{}
// a clone taken mid-stream continues like the original: the suffix run from the common state is the same function
pub proof fn lemma_run_split<V: View>(s: V::S, h1: Seq<T>, h2: Seq<T>)
    ensures run::<V>(s, h1 + h2) == run::<V>(run::<V>(s, h1), h2)
    decreases h2.len()
{
    if h2.len() == 0 { assert(h1 + h2 =~= h1); }
    else {
        lemma_run_split::<V>(s, h1, h2.drop_last());
        assert((h1 + h2).drop_last() =~= h1 + h2.drop_last());
        assert((h1 + h2).last() == h2.last());
    }
}
// (4) a clone taken at any moment (M4: the field-wise clone that #[derive(Clone)] generates, proved per view to preserve the abstract
// state) continues exactly like the original on the same inputs, and feeding the original alone leaves the clone where it was:
// the two are separate owned values, `update` takes `&mut` to one of them only.
pub fn clone_then_both<V: View>(v: &mut V, xs: &Vec<T>) -> (c: V)
    requires old(v).inv(), run_ok::<V>(old(v).abs(), xs@),
    ensures final(v).inv(), c.inv(), c.abs() == final(v).abs(), final(v).abs() == run::<V>(old(v).abs(), xs@),
{
    let mut c = v.clone_view();
    drive(v, xs);
    drive(&mut c, xs);
    c
}
pub fn clone_then_original_only<V: View>(v: &mut V, xs: &Vec<T>) -> (c: V)
    requires old(v).inv(), run_ok::<V>(old(v).abs(), xs@),
    ensures final(v).inv(), c.inv(), c.abs() == old(v).abs(), final(v).abs() == run::<V>(old(v).abs(), xs@),
{
    let c = v.clone_view();
    drive(v, xs);
    c
}
