// C12, negation clauses: negating the input negates HLNormalizer, Vsct, Vst, NET, TrendFlex and ReFlex (non-degenerate windows)
use crate::props::c00_affine::*;
use crate::props::c04_averages::*;
use crate::props::c12_invariance::*;
use crate::props::c12_normalised::*;
use crate::props::c12_recursive::*;

pub open spec fn negated(w: Seq<T>) -> Seq<T> { affine(w, -1real, 0real) }
pub proof fn lemma_hl_negate(w: Seq<T>)
    requires w.len() > 0
    ensures hl_out(negated(w)) == -hl_out(w)
{
    lemma_smin_negate(w);
    let lo = smin(w); let hi = smax(w); let x = w.last().v();
    assert(negated(w).last().v() == -1real * x + 0real);
    assert(-1real * x + 0real == -x) by(nonlinear_arith);
    if hi != lo {
        lemma_smin_is_min(w); lemma_smax_is_max(w);
        let q = rdiv((x - lo) * 2real, hi - lo); lemma_rdiv_mul((x - lo) * 2real, hi - lo);
        // negated: -1 + 2 (hi - x)/(hi - lo) = -( -1 + 2 (x - lo)/(hi - lo) )  since the two fractions add up to 2
        let r = rdiv((-x - (-hi)) * 2real, -lo - (-hi));
        assert((2real - q) * (-lo - (-hi)) == (-x - (-hi)) * 2real) by(nonlinear_arith) requires q * (hi - lo) == (x - lo) * 2real;
        lemma_rdiv_unique(2real - q, (-x - (-hi)) * 2real, -lo - (-hi));
    }
}
pub proof fn lemma_vsct_vst_negate(w: Seq<T>)
    requires w.len() >= 2, wo_variance(w) > 0real
    ensures ({ let v = negated(w);
               rdiv(v.last().v() - wo_mean(v), r_sqrt(wo_variance(v))) == -rdiv(w.last().v() - wo_mean(w), r_sqrt(wo_variance(w)))
               && rdiv(v.last().v(), r_sqrt(wo_variance(v))) == -rdiv(w.last().v(), r_sqrt(wo_variance(w))) })
{
    let v = negated(w);
    lemma_welford_variance_affine(w, -1real, 0real);
    assert(((-1real) * (-1real)) * wo_variance(w) == wo_variance(w)) by(nonlinear_arith);
    let s = r_sqrt(wo_variance(w)); lemma_sqrt_pos(wo_variance(w));
    let x = w.last().v(); let m = wo_mean(w);
    assert(v.last().v() == -1real * x + 0real);
    assert(-1real * x + 0real == -x && -1real * m + 0real == -m) by(nonlinear_arith);
    let q = rdiv(x - m, s); lemma_rdiv_mul(x - m, s);
    assert((-q) * s == -x - (-m)) by(nonlinear_arith) requires q * s == x - m;
    lemma_rdiv_unique(-q, -x - (-m), s);
    let p = rdiv(x, s); lemma_rdiv_mul(x, s);
    assert((-p) * s == -x) by(nonlinear_arith) requires p * s == x;
    lemma_rdiv_unique(-p, -x, s);
}
// NET: every pair sign flips
pub proof fn lemma_kendall_inner_negate(w: Seq<T>, c: int, m: int)
    requires 1 <= m <= c <= w.len()
    ensures kendall_inner(xs_of(negated(w)), c, m) == -kendall_inner(xs_of(w), c, m)
    decreases m
{
    if m > 1 {
        lemma_kendall_inner_negate(w, c, m - 1);
        let v = negated(w);
        assert(xs_of(v)[m - 1].v() == -1real * xs_of(w)[m - 1].v() + 0real);
        assert(xs_of(v)[c].v() == -1real * xs_of(w)[c].v() + 0real);
        let a = xs_of(w)[m - 1].v(); let b = xs_of(w)[c].v();
        assert((-1real * a + 0real) - (-1real * b + 0real) == -(a - b)) by(nonlinear_arith);
    }
}
pub proof fn lemma_kendall_outer_negate(w: Seq<T>, m: int)
    requires 2 <= m <= w.len() + 1
    ensures kendall_outer(xs_of(negated(w)), m) == -kendall_outer(xs_of(w), m)
    decreases m
{
    if m > 2 { lemma_kendall_outer_negate(w, m - 1); lemma_kendall_inner_negate(w, m - 1, m - 1); }
}
pub proof fn lemma_net_negate(w: Seq<T>)
    requires w.len() >= 2
    ensures net_of(negated(w)) == -net_of(w)
{
    lemma_kendall_outer_negate(w, w.len() as int + 1);
    let n = w.len() as real; let den = 5real / 10real * n * (n - 1real); let k = kendall_outer(xs_of(w), w.len() as int + 1);
    lemma_mul_pos(5real / 10real * n, n - 1real);
    let q = rdiv(k, den); lemma_rdiv_mul(k, den);
    assert((-q) * den == -k) by(nonlinear_arith) requires q * den == k;
    lemma_rdiv_unique(-q, -k, den);
}
// TrendFlex / ReFlex: the state is linear in the input, the mean square even, the output odd
pub proof fn lemma_flex_output_negate(d: real, ms: real)
    ensures ({ let ms0 = (4real / 100real) * r_powi(d, 2) + (96real / 100real) * ms;
               let ms1 = (4real / 100real) * r_powi(-d, 2) + (96real / 100real) * ms;
               ms1 == ms0 && (ms0 > 0real ==> rdiv(-d, r_sqrt(ms1)) == -rdiv(d, r_sqrt(ms0))) })
{
    ax_powi2(d); ax_powi2(-d);
    assert((-d) * (-d) == d * d) by(nonlinear_arith);
    let ms0 = (4real / 100real) * r_powi(d, 2) + (96real / 100real) * ms;
    if ms0 > 0real {
        lemma_sqrt_pos(ms0); let s = r_sqrt(ms0); let q = rdiv(d, s); lemma_rdiv_mul(d, s);
        assert((-q) * s == -d) by(nonlinear_arith) requires q * s == d;
        lemma_rdiv_unique(-q, -d, s);
    }
}
pub proof fn lemma_trend_flex_negate(o: TrendFlexOwn, y: T)
    requires o.n >= 1
    ensures ({ let os = TrendFlexOwn { n: o.n, x1: mk(-1real * o.x1.v()), ms: o.ms, q: scaled(o.q, -1real), o: None::<T> };
               let s = tf_step(o, y); let t = tf_step(os, mk(-1real * y.v()));
               t.q =~= scaled(s.q, -1real) && t.ms == s.ms && t.x1.v() == -1real * s.x1.v()
               && (s.ms.v() > 0real ==> t.o.unwrap().v() == -s.o.unwrap().v()) })
{
    let a = -1real;
    let x1 = if o.q.len() == 0 { y } else { o.x1 };
    let q1 = flex_evict(o.q, o.n);
    lemma_scaled_index(o.q, a);
    assert(flex_evict(scaled(o.q, a), o.n) =~= scaled(q1, a));
    lemma_flex_filt_scale(q1, x1, y, o.n, a);
    let filt = flex_filt(q1, x1, y, o.n);
    let q2 = q1.push(mk(filt));
    assert(scaled(q1, a).push(mk(a * filt)) =~= scaled(q2, a));
    lemma_tf_dsum_scale(q2, filt, q2.len() as int, a);
    let ds = tf_dsum(q2, filt, q2.len() as int); let nn = o.n as real;
    let d = rdiv(ds, nn); lemma_rdiv_mul(ds, nn);
    assert((a * d) * nn == a * ds) by(nonlinear_arith) requires d * nn == ds;
    lemma_rdiv_unique(a * d, a * ds, nn);
    assert(a * d == -d) by(nonlinear_arith) requires a == -1real;
    lemma_flex_output_negate(d, o.ms.v());
}
