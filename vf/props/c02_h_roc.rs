// C02/C05/C06 at history level for this view (over Echo): abstract window == last N values; closed-form output
use crate::props::c00_window::*;
pub proof fn lemma_run_roc(h: Seq<T>, n: nat)
    requires n >= 1
    ensures ({ let s = run::<Roc<Echo>>((None::<T>, RocOwn { n: n, w: Seq::<T>::empty(), base: None::<T>, o: None::<T> }), h);
               s.0 == echo_of(h) && s.1.n == n && s.1.w == win(h, n) && s.1.base == roc_base_of(h, n)
               && (h.len() > 0 && roc_base_of(h, n).unwrap().v() != 0real ==>
                    s.1.o == Some(mk(rdiv(h.last().v() - roc_base_of(h, n).unwrap().v(), roc_base_of(h, n).unwrap().v()) * 100real))) })
    decreases h.len()
{
    if h.len() > 0 {
        let g = h.drop_last();
        lemma_run_roc(g, n); lemma_win_step(h, n);
        if g.len() == 0 { assert(h[0] == h.last()); }
        else if g.len() < n { assert(g[0] == h[0]); }
        else if g.len() == n { assert(win(g, n)[0] == g[0]); assert(g[0] == h[0]); }
        else { assert(win(g, n)[0] == g[g.len() - n]); assert(g[g.len() - n] == h[h.len() - n - 1]); }
    } else { assert(win(h, n) =~= Seq::<T>::empty()); }
}
