// C12 for CorrelationTrendIndicator with k = the number of values in the window: invariant under x -> a x + b, a > 0, and negated by negation.
// (Before the repair b79cbfd the code multiplied by N instead of k on a partially filled window and was not offset-invariant there.)
use crate::props::c00_affine::*;
use crate::props::c07_cti_bound::*;

pub proof fn lemma_ixsum_affine(w: Seq<T>, a: real, b: real)
    ensures ixsum(affine(w, a, b)) == a * ixsum(w) + b * isum(w.len())
    decreases w.len()
{
    if w.len() > 0 {
        lemma_ixsum_affine(w.drop_last(), a, b);
        assert(affine(w, a, b).drop_last() =~= affine(w.drop_last(), a, b));
        let x = w.last().v(); let i = (w.len() - 1) as real;
        assert(affine(w, a, b).last().v() == a * x + b);
        assert((a * x + b) * i == a * (x * i) + b * i) by(nonlinear_arith);
        assert(a * (ixsum(w.drop_last()) + x * i) == a * ixsum(w.drop_last()) + a * (x * i)) by(nonlinear_arith);
        assert(b * (isum((w.len() - 1) as nat) + i) == b * isum((w.len() - 1) as nat) + b * i) by(nonlinear_arith);
    } else { assert(a * 0real + b * 0real == 0real) by(nonlinear_arith); }
}
pub proof fn lemma_cti_parts_affine(w: Seq<T>, a: real, b: real)
    requires w.len() >= 1
    ensures ({ let n = w.len() as real; let v = affine(w, a, b);
               cti_vx(v, n) == (a * a) * cti_vx(w, n) && cti_cov(v, n) == a * cti_cov(w, n) && cti_vy(v, n) == cti_vy(w, n) })
{
    let n = w.len() as real; let v = affine(w, a, b);
    lemma_sumsq_affine(w, a, b); lemma_sum_affine(w, a, b); lemma_ixsum_affine(w, a, b);
    lemma_spread_affine(n, sum(w), sumsq(w), a, b);
    let s = sum(w); let t = isum(w.len()); let xy = ixsum(w);
    // n (a xy + b t) - (a s + n b) t = a (n xy - s t)
    assert(n * (a * xy + b * t) == a * (n * xy) + (n * b) * t) by(nonlinear_arith);
    assert((a * s + n * b) * t == a * (s * t) + (n * b) * t) by(nonlinear_arith);
    assert(a * (n * xy - s * t) == a * (n * xy) - a * (s * t)) by(nonlinear_arith);
}
pub proof fn lemma_cti_affine_invariant(w: Seq<T>, a: real, b: real)
    requires w.len() >= 1, a > 0real
    ensures cti_of(affine(w, a, b), w.len() as real) == cti_of(w, w.len() as real)
{
    let n = w.len() as real; let v = affine(w, a, b);
    lemma_cti_parts_affine(w, a, b);
    let vx = cti_vx(w, n); let vy = cti_vy(w, n); let cov = cti_cov(w, n);
    assert(a * a > 0real) by(nonlinear_arith) requires a > 0real;
    assert(((a * a) * vx > 0real) == (vx > 0real)) by(nonlinear_arith) requires a * a > 0real;
    if vx > 0real && vy > 0real {
        lemma_mul_pos(vx, vy);
        let d = vx * vy; let s = r_sqrt(d);
        lemma_sqrt_scale(a, d); lemma_sqrt_pos(d);
        assert(((a * a) * vx) * vy == (a * a) * d) by(nonlinear_arith) requires d == vx * vy;
        let q = rdiv(cov, s); lemma_rdiv_mul(cov, s);
        assert(a * s != 0real) by(nonlinear_arith) requires a > 0real, s > 0real;
        assert(q * (a * s) == a * cov) by(nonlinear_arith) requires q * s == cov;
        lemma_rdiv_unique(q, a * cov, a * s);
    }
}
pub proof fn lemma_cti_negate(w: Seq<T>)
    requires w.len() >= 1
    ensures cti_of(affine(w, -1real, 0real), w.len() as real) == -cti_of(w, w.len() as real)
{
    let n = w.len() as real;
    lemma_cti_parts_affine(w, -1real, 0real);
    let vx = cti_vx(w, n); let vy = cti_vy(w, n); let cov = cti_cov(w, n);
    assert(((-1real) * (-1real)) * vx == vx) by(nonlinear_arith);
    assert((-1real) * cov == -cov) by(nonlinear_arith);
    if vx > 0real && vy > 0real {
        lemma_mul_pos(vx, vy);
        let s = r_sqrt(vx * vy); lemma_sqrt_pos(vx * vy);
        let q = rdiv(cov, s); lemma_rdiv_mul(cov, s);
        assert((-q) * s == -cov) by(nonlinear_arith) requires q * s == cov;
        lemma_rdiv_unique(-q, -cov, s);
    }
}
