// C12 at whole-history level (views over Echo): two instances fed h and a*h+b (or -h) give the stated relation at the end of every
// history h - by the run lemmas (state == window of the history) and the window-level lemmas of c12_*.
use crate::props::c00_window::*;
use crate::props::c00_affine::*;
use crate::props::c02_h_hl_normalizer::*;
use crate::props::c02_h_min::*;
use crate::props::c02_h_max::*;
use crate::props::c02_h_sma::*;
use crate::props::c02_h_cumulative::*;
use crate::props::c05_h_rsi::*;
use crate::props::c06_h_center_of_gravity::*;
use crate::props::c06_h_cti::*;
use crate::props::c06_h_net::*;
use crate::props::c12_invariance::*;
use crate::props::c12_cti::*;
use crate::props::c12_negation::*;

pub proof fn lemma_win_affine(h: Seq<T>, n: nat, a: real, b: real)
    ensures win(affine(h, a, b), n) =~= affine(win(h, n), a, b),
            h.len() > 0 ==> pred_of(affine(h, a, b), n) == mk(a * pred_of(h, n).v() + b)
{
}
pub open spec fn opt_rel(p: Option<T>, q: Option<T>, f: spec_fn(real) -> real) -> bool {
    match (p, q) { (Some(x), Some(y)) => y.v() == f(x.v()), (None, None) => true, _ => false }
}
// ---- affine-invariant: HLNormalizer, CTI (at every step, also while the window fills up)
pub proof fn lemma_hl_normalizer_history_affine(h: Seq<T>, n: nat, a: real, b: real)
    requires n >= 1, a > 0real, h.len() > 0
    ensures ({ let i = (None::<T>, HLNormalizerOwn { n: n, w: Seq::<T>::empty() });
               HLNormalizer::<Echo>::out(run::<HLNormalizer<Echo>>(i, affine(h, a, b))) == HLNormalizer::<Echo>::out(run::<HLNormalizer<Echo>>(i, h)) })
{
    lemma_hl_normalizer_closed_form(h, n); lemma_hl_normalizer_closed_form(affine(h, a, b), n);
    lemma_win_affine(h, n, a, b); lemma_hl_affine_invariant(win(h, n), a, b);
}
pub proof fn lemma_hl_normalizer_history_negate(h: Seq<T>, n: nat)
    requires n >= 1, h.len() > 0
    ensures ({ let i = (None::<T>, HLNormalizerOwn { n: n, w: Seq::<T>::empty() });
               opt_rel(HLNormalizer::<Echo>::out(run::<HLNormalizer<Echo>>(i, h)), HLNormalizer::<Echo>::out(run::<HLNormalizer<Echo>>(i, negated(h))), |x: real| -x) })
{
    lemma_hl_normalizer_closed_form(h, n); lemma_hl_normalizer_closed_form(negated(h), n);
    lemma_win_affine(h, n, -1real, 0real); lemma_hl_negate(win(h, n));
}
pub proof fn lemma_cti_history_affine(h: Seq<T>, n: nat, a: real, b: real)
    requires n >= 1, a > 0real, h.len() >= 1
    ensures ({ let i = (None::<T>, CorrelationTrendIndicatorOwn { n: n, w: Seq::<T>::empty() });
               CorrelationTrendIndicator::<Echo>::out(run::<CorrelationTrendIndicator<Echo>>(i, affine(h, a, b))) == CorrelationTrendIndicator::<Echo>::out(run::<CorrelationTrendIndicator<Echo>>(i, h))
               && opt_rel(CorrelationTrendIndicator::<Echo>::out(run::<CorrelationTrendIndicator<Echo>>(i, h)), CorrelationTrendIndicator::<Echo>::out(run::<CorrelationTrendIndicator<Echo>>(i, negated(h))), |x: real| -x) })
{
    lemma_cti_closed_form(h, n); lemma_cti_closed_form(affine(h, a, b), n); lemma_cti_closed_form(negated(h), n);
    lemma_win_affine(h, n, a, b); lemma_win_affine(h, n, -1real, 0real);
    lemma_cti_affine_invariant(win(h, n), a, b); lemma_cti_negate(win(h, n));
}
// ---- scale-invariant: Rsi (and Rsi(-x) == 100 - Rsi(x)), CenterOfGravity
pub proof fn lemma_rsi_history_scale(h: Seq<T>, n: nat, a: real)
    requires n >= 1, a > 0real, h.len() > 0
    ensures ({ let i = (None::<T>, RsiOwn { n: n, w: Seq::<T>::empty(), pred: mk(0real) });
               Rsi::<Echo>::out(run::<Rsi<Echo>>(i, affine(h, a, 0real))) == Rsi::<Echo>::out(run::<Rsi<Echo>>(i, h)) })
{
    lemma_rsi_closed_form(h, n); lemma_rsi_closed_form(affine(h, a, 0real), n);
    lemma_win_affine(h, n, a, 0real); lemma_rsi_scale_invariant(win(h, n), pred_of(h, n), a, 0real);
}
pub proof fn lemma_rsi_history_negate(h: Seq<T>, n: nat)
    requires n >= 1, h.len() >= n, gains(win(h, n), pred_of(h, n)) != 0real, losses(win(h, n), pred_of(h, n)) != 0real
    ensures ({ let i = (None::<T>, RsiOwn { n: n, w: Seq::<T>::empty(), pred: mk(0real) });
               opt_rel(Rsi::<Echo>::out(run::<Rsi<Echo>>(i, h)), Rsi::<Echo>::out(run::<Rsi<Echo>>(i, negated(h))), |x: real| 100real - x) })
{
    lemma_rsi_closed_form(h, n); lemma_rsi_closed_form(negated(h), n);
    lemma_win_affine(h, n, -1real, 0real); lemma_rsi_negate(win(h, n), pred_of(h, n));
    assert(mk(-1real * pred_of(h, n).v() + 0real) == mk(-pred_of(h, n).v()));
}
pub proof fn lemma_cog_history_scale(h: Seq<T>, n: nat, a: real)
    requires n >= 1, a > 0real
    ensures ({ let i = (None::<T>, CenterOfGravityOwn { n: n, w: Seq::<T>::empty() });
               CenterOfGravity::<Echo>::out(run::<CenterOfGravity<Echo>>(i, affine(h, a, 0real))) == CenterOfGravity::<Echo>::out(run::<CenterOfGravity<Echo>>(i, h)) })
{
    lemma_center_of_gravity_closed_form(h, n); lemma_center_of_gravity_closed_form(affine(h, a, 0real), n);
    lemma_win_affine(h, n, a, 0real); lemma_cog_scale_invariant(win(h, n), a);
}
// ---- equivariant: Min / Max / Sma / Cumulative (a x + b for Min, Max, Sma; a x for Cumulative); Min(-x) == -Max(x)
pub proof fn lemma_min_max_history_affine(h: Seq<T>, n: nat, a: real, b: real)
    requires n >= 1, a > 0real
    ensures ({ let i = (None::<T>, MinOwn { n: n, w: Seq::<T>::empty() }); let j = (None::<T>, MaxOwn { n: n, w: Seq::<T>::empty() });
               opt_rel(Min::<Echo>::out(run::<Min<Echo>>(i, h)), Min::<Echo>::out(run::<Min<Echo>>(i, affine(h, a, b))), |x: real| a * x + b)
               && opt_rel(Max::<Echo>::out(run::<Max<Echo>>(j, h)), Max::<Echo>::out(run::<Max<Echo>>(j, affine(h, a, b))), |x: real| a * x + b)
               && opt_rel(Max::<Echo>::out(run::<Max<Echo>>(j, h)), Min::<Echo>::out(run::<Min<Echo>>(i, negated(h))), |x: real| -x)
               && opt_rel(Min::<Echo>::out(run::<Min<Echo>>(i, h)), Max::<Echo>::out(run::<Max<Echo>>(j, negated(h))), |x: real| -x) })
{
    lemma_min_closed_form(h, n); lemma_min_closed_form(affine(h, a, b), n); lemma_min_closed_form(negated(h), n);
    lemma_max_closed_form(h, n); lemma_max_closed_form(affine(h, a, b), n); lemma_max_closed_form(negated(h), n);
    lemma_win_affine(h, n, a, b); lemma_win_affine(h, n, -1real, 0real);
    if h.len() > 0 { lemma_smin_affine(win(h, n), a, b); lemma_smin_negate(win(h, n)); }
}
pub proof fn lemma_sma_cumulative_history_affine(h: Seq<T>, n: nat, a: real, b: real)
    requires n >= 1
    ensures ({ let i = (None::<T>, SmaOwn { n: n, w: Seq::<T>::empty() }); let j = (None::<T>, CumulativeOwn { n: n, w: Seq::<T>::empty() });
               opt_rel(Sma::<Echo>::out(run::<Sma<Echo>>(i, h)), Sma::<Echo>::out(run::<Sma<Echo>>(i, affine(h, a, b))), |x: real| a * x + b)
               && opt_rel(Cumulative::<Echo>::out(run::<Cumulative<Echo>>(j, h)), Cumulative::<Echo>::out(run::<Cumulative<Echo>>(j, affine(h, a, 0real))), |x: real| a * x) })
{
    lemma_sma_closed_form(h, n); lemma_sma_closed_form(affine(h, a, b), n);
    lemma_cumulative_closed_form(h, n); lemma_cumulative_closed_form(affine(h, a, 0real), n);
    lemma_win_affine(h, n, a, b); lemma_win_affine(h, n, a, 0real);
    if h.len() >= n { lemma_mean_affine(win(h, n), a, b); }
    lemma_sum_affine(win(h, n), a, 0real);
    assert((win(h, n).len() as real) * 0real == 0real) by(nonlinear_arith);
}
// ---- NET: invariant under a x + b (order only), negated by negation
pub proof fn lemma_net_history_negate(h: Seq<T>, n: nat)
    requires n >= 1, win(h, n).len() >= 2
    ensures ({ let i = (None::<T>, NoiseEliminationTechnologyOwn { n: n, w: Seq::<T>::empty(), o: None::<T> });
               opt_rel(NoiseEliminationTechnology::<Echo>::out(run::<NoiseEliminationTechnology<Echo>>(i, h)), NoiseEliminationTechnology::<Echo>::out(run::<NoiseEliminationTechnology<Echo>>(i, negated(h))), |x: real| -x) })
{
    lemma_run_net(h, n); lemma_run_net(negated(h), n);
    lemma_win_affine(h, n, -1real, 0real); lemma_net_negate(win(h, n));
}
pub proof fn lemma_kendall_inner_affine(w: Seq<T>, c: int, m: int, a: real, b: real)
    requires 1 <= m <= c <= w.len(), a > 0real
    ensures kendall_inner(xs_of(affine(w, a, b)), c, m) == kendall_inner(xs_of(w), c, m)
    decreases m
{
    if m > 1 {
        lemma_kendall_inner_affine(w, c, m - 1, a, b);
        let v = affine(w, a, b);
        assert(xs_of(v)[m - 1].v() == a * xs_of(w)[m - 1].v() + b);
        assert(xs_of(v)[c].v() == a * xs_of(w)[c].v() + b);
        lemma_sgn3_scale(xs_of(w)[m - 1].v(), xs_of(w)[c].v(), a, b);
    }
}
pub proof fn lemma_kendall_outer_affine(w: Seq<T>, m: int, a: real, b: real)
    requires 2 <= m <= w.len() + 1, a > 0real
    ensures kendall_outer(xs_of(affine(w, a, b)), m) == kendall_outer(xs_of(w), m)
    decreases m
{
    if m > 2 { lemma_kendall_outer_affine(w, m - 1, a, b); lemma_kendall_inner_affine(w, m - 1, m - 1, a, b); }
}
pub proof fn lemma_net_history_affine(h: Seq<T>, n: nat, a: real, b: real)
    requires n >= 1, a > 0real, win(h, n).len() >= 2
    ensures ({ let i = (None::<T>, NoiseEliminationTechnologyOwn { n: n, w: Seq::<T>::empty(), o: None::<T> });
               NoiseEliminationTechnology::<Echo>::out(run::<NoiseEliminationTechnology<Echo>>(i, affine(h, a, b))) == NoiseEliminationTechnology::<Echo>::out(run::<NoiseEliminationTechnology<Echo>>(i, h)) })
{
    lemma_run_net(h, n); lemma_run_net(affine(h, a, b), n);
    lemma_win_affine(h, n, a, b);
    lemma_kendall_outer_affine(win(h, n), win(h, n).len() as int + 1, a, b);
}
