// C03 for this view: two histories that agree on their last K values give the same output
use crate::props::c00_window::*;
use crate::props::c03_0_suffix::*;
use crate::props::c06_h_net::*;
// NET: determined by the window once it holds two values (K = N >= 2)
pub proof fn lemma_finite_memory_net(h1: Seq<T>, h2: Seq<T>, n: nat)
    requires n >= 2, h1.len() >= n, h2.len() >= n, suffix(h1, n) == suffix(h2, n)
    ensures NoiseEliminationTechnology::<Echo>::out(run::<NoiseEliminationTechnology<Echo>>((None::<T>, NoiseEliminationTechnologyOwn { n: n, w: Seq::<T>::empty(), o: None::<T> }), h1))
         == NoiseEliminationTechnology::<Echo>::out(run::<NoiseEliminationTechnology<Echo>>((None::<T>, NoiseEliminationTechnologyOwn { n: n, w: Seq::<T>::empty(), o: None::<T> }), h2))
{
    lemma_run_net(h1, n); lemma_run_net(h2, n); lemma_win_suffix(h1, h2, n, n);
}
