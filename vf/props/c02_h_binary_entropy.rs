// BinaryEntropy keeps its window newest-first: after any history the abstract window is the last min(|h|, N) values, newest first
use crate::props::c00_window::*;
pub open spec fn rwin(h: Seq<T>, n: nat) -> Seq<T> {
    Seq::new(if h.len() <= n { h.len() } else { n }, |i: int| h[h.len() - 1 - i])
}
pub proof fn lemma_rwin_step(h: Seq<T>, n: nat)
    requires h.len() > 0, n >= 1
    ensures wpush_front(rwin(h.drop_last(), n), h.last(), n) =~= rwin(h, n)
{
    let g = h.drop_last(); let r = rwin(g, n);
    let res = wpush_front(r, h.last(), n);
    if r.len() >= n && r.len() > 0 {
        assert(res =~= seq![h.last()] + r.drop_last());
        assert forall|i: int| 0 <= i < rwin(h, n).len() implies res[i] == rwin(h, n)[i] by {
            if i > 0 { assert(res[i] == r.drop_last()[i - 1]); assert(r[i - 1] == g[g.len() - 1 - (i - 1)]); }
        }
    } else {
        assert(res =~= seq![h.last()] + r);
        assert forall|i: int| 0 <= i < rwin(h, n).len() implies res[i] == rwin(h, n)[i] by {
            if i > 0 { assert(res[i] == r[i - 1]); assert(r[i - 1] == g[g.len() - 1 - (i - 1)]); }
        }
    }
}
pub proof fn lemma_run_binary_entropy(h: Seq<T>, n: nat)
    requires n >= 1
    ensures ({ let s = run::<BinaryEntropy<Echo>>((None::<T>, BinaryEntropyOwn { n: n, w: Seq::<T>::empty() }), h);
               s.0 == echo_of(h) && s.1.n == n && s.1.w =~= rwin(h, n) })
    decreases h.len()
{
    if h.len() > 0 { lemma_run_binary_entropy(h.drop_last(), n); lemma_rwin_step(h, n); }
}
// Shannon entropy of the fraction of non-negative values among the last N values (C02)
pub proof fn lemma_binary_entropy_closed_form(h: Seq<T>, n: nat)
    requires n >= 1, h.len() >= 1
    ensures BinaryEntropy::<Echo>::out(run::<BinaryEntropy<Echo>>((None::<T>, BinaryEntropyOwn { n: n, w: Seq::<T>::empty() }), h))
        == Some(mk(entropy_of(nonneg_count(rwin(h, n)), rwin(h, n).len())))
{
    lemma_run_binary_entropy(h, n);
    let s = run::<BinaryEntropy<Echo>>((None::<T>, BinaryEntropyOwn { n: n, w: Seq::<T>::empty() }), h);
    assert(s.1.w == rwin(h, n));
}
