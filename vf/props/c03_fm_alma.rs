// C03 for Alma (K = 2N): every stored weight is the Gaussian of the position at which its sample was inserted, min(j, N-1) for the
// j-th delivered sample; once 2N-1 samples have been delivered all weights in the window are equal, so two histories that share
// their last 2N values carry the same window AND the same weights.
use crate::props::c00_window::*;
use crate::props::c03_0_suffix::*;

pub open spec fn alma_pos(j: int, n: nat) -> real { if j < n - 1 { j as real } else { (n - 1) as real } }
pub open spec fn alma_weights(t: nat, n: nat, m: real, s: real) -> Seq<T> {
    let k = if t <= n { t } else { n };
    Seq::new(k, |i: int| mk(alma_wt(alma_pos(t - k + i, n), m, s)))
}
pub open spec fn alma_init(n: nat, m: T, s: T) -> AlmaOwn { AlmaOwn { n: n, m: m, s: s, w: Seq::<T>::empty(), g: Seq::<T>::empty(), o: None::<T> } }
pub proof fn lemma_run_alma(h: Seq<T>, n: nat, m: T, s: T)
    requires n >= 1
    ensures ({ let st = run::<Alma<Echo>>((None::<T>, alma_init(n, m, s)), h);
               st.0 == echo_of(h) && st.1.n == n && st.1.m == m && st.1.s == s && st.1.w =~= win(h, n) && st.1.g =~= alma_weights(h.len(), n, m.v(), s.v())
               && (h.len() > 0 ==> st.1.o == Some(mk(rdiv(dot(st.1.g, st.1.w), sum(st.1.g))))) })
    decreases h.len()
{
    if h.len() > 0 {
        let g0 = h.drop_last();
        lemma_run_alma(g0, n, m, s); lemma_win_step(h, n);
        let st0 = run::<Alma<Echo>>((None::<T>, alma_init(n, m, s)), g0);
        let t0 = g0.len(); let t = h.len();
        let w0 = st0.1.w; let gg0 = st0.1.g;
        let full = w0.len() >= n && w0.len() > 0;
        let w1 = if full { w0.drop_first() } else { w0 }; let g1 = if full { gg0.drop_first() } else { gg0 };
        let wt = mk(alma_wt(w1.len() as real, m.v(), s.v()));
        // the new sample (index t0) is inserted at position |w1| = min(t0, n-1)
        assert(w1.len() as real == alma_pos(t0 as int, n));
        let target = alma_weights(t, n, m.v(), s.v());
        assert(g1.push(wt) =~= target) by {
            let k = if t <= n { t } else { n };
            assert(g1.push(wt).len() == k);
            assert forall|i: int| 0 <= i < k implies g1.push(wt)[i] == target[i] by {
                if i < k - 1 {
                    if full { assert(g1[i] == gg0[i + 1]); } else { assert(g1[i] == gg0[i]); }
                }
            }
        }
        assert(wpush(w0, h.last(), n) =~= w1.push(h.last()));
    }
}
pub proof fn lemma_alma_weights_settle(t1: nat, t2: nat, n: nat, m: real, s: real)
    requires n >= 1, t1 >= 2 * n, t2 >= 2 * n
    ensures alma_weights(t1, n, m, s) =~= alma_weights(t2, n, m, s)
{}
pub proof fn lemma_finite_memory_alma(h1: Seq<T>, h2: Seq<T>, n: nat, m: T, s: T)
    requires n >= 1, h1.len() >= 2 * n, h2.len() >= 2 * n, suffix(h1, 2 * n) == suffix(h2, 2 * n)
    ensures Alma::<Echo>::out(run::<Alma<Echo>>((None::<T>, alma_init(n, m, s)), h1)) == Alma::<Echo>::out(run::<Alma<Echo>>((None::<T>, alma_init(n, m, s)), h2))
{
    lemma_run_alma(h1, n, m, s); lemma_run_alma(h2, n, m, s);
    lemma_win_suffix(h1, h2, n, 2 * n);
    lemma_alma_weights_settle(h1.len(), h2.len(), n, m.v(), s.v());
}
