// C02/C05/C06 at history level for this view (over Echo): abstract window == last N values; closed-form output
use crate::props::c00_window::*;
pub proof fn lemma_run_min(h: Seq<T>, n: nat)
    requires n >= 1
    ensures ({ let s = run::<Min<Echo>>((None::<T>, MinOwn { n: n, w: Seq::<T>::empty() }), h);
               s.0 == echo_of(h) && s.1 == MinOwn { n: n, w: win(h, n) } })
    decreases h.len()
{
    if h.len() > 0 { lemma_run_min(h.drop_last(), n); lemma_win_step(h, n); }
    else { assert(win(h, n) =~= Seq::<T>::empty()); }
}
pub proof fn lemma_min_closed_form(h: Seq<T>, n: nat)
    requires n >= 1
    ensures Min::<Echo>::out(run::<Min<Echo>>((None::<T>, MinOwn { n: n, w: Seq::<T>::empty() }), h))
        == (if h.len() == 0 { None::<T> } else { Some(mk(smin(win(h, n)))) })
{
    lemma_run_min(h, n);
}

