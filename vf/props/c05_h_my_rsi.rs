// C02/C05/C06 at history level for this view (over Echo): abstract window == last N values; closed-form output
use crate::props::c00_window::*;
pub proof fn lemma_run_my_rsi_window(h: Seq<T>, n: nat, held0: T)
    requires n >= 1
    ensures ({ let s = run::<MyRSI<Echo>>((None::<T>, MyRSIOwn { n: n, w: Seq::<T>::empty(), pred: mk(0real), held: held0 }), h);
               s.0 == echo_of(h) && s.1.n == n && s.1.w == win(h, n) && s.1.pred == pred_of(h, n) })
    decreases h.len()
{
    if h.len() > 0 { lemma_run_my_rsi_window(h.drop_last(), n, held0); lemma_win_step(h, n); lemma_pred_step(h, n); }
    else { assert(win(h, n) =~= Seq::<T>::empty()); }
}
// MyRSI == (G-L)/(G+L) over the N most recent values whenever G+L != 0 at the last step
pub proof fn lemma_my_rsi_closed_form(h: Seq<T>, n: nat)
    requires n >= 1, h.len() >= n, gains(win(h, n), pred_of(h, n)) + losses(win(h, n), pred_of(h, n)) != 0real
    ensures MyRSI::<Echo>::out(run::<MyRSI<Echo>>((None::<T>, MyRSIOwn { n: n, w: Seq::<T>::empty(), pred: mk(0real), held: mk(0real) }), h))
        == Some(mk(rdiv(gains(win(h, n), pred_of(h, n)) - losses(win(h, n), pred_of(h, n)), gains(win(h, n), pred_of(h, n)) + losses(win(h, n), pred_of(h, n)))))
{
    lemma_run_my_rsi_window(h, n, mk(0real));
    lemma_run_my_rsi_window(h.drop_last(), n, mk(0real));
    lemma_win_step(h, n); lemma_pred_step(h, n);
}
