// generic lemmas about x -> a x + b applied to a sequence (no view is mentioned here, so these survive when a view leaves the supported subset)
// ---------- arithmetic mean of a non-empty sequence ----------
pub proof fn lemma_sum_bounds(w: Seq<T>)
    requires w.len() > 0
    ensures (w.len() as real) * smin(w) <= sum(w) <= (w.len() as real) * smax(w)
    decreases w.len()
{
    if w.len() == 1 {
        assert(w.drop_last() =~= Seq::<T>::empty());
        assert(w.last() == w[0]);
        assert(sum(Seq::<T>::empty()) == 0real);
        assert(sum(w) == w[0].v());
        assert(1real * smin(w) == smin(w)) by(nonlinear_arith);
        assert(1real * smax(w) == smax(w)) by(nonlinear_arith);
    } else {
        let u = w.drop_last(); let x = w.last().v(); let k = u.len() as real;
        lemma_sum_bounds(u);
        assert(w.len() as real == k + 1real);
        // smin(w) <= smin(u), smin(w) <= x ; smax(w) >= smax(u), smax(w) >= x
        assert((k + 1real) * smin(w) <= k * smin(u) + x) by(nonlinear_arith) requires smin(w) <= smin(u), smin(w) <= x, k >= 1real;
        assert((k + 1real) * smax(w) >= k * smax(u) + x) by(nonlinear_arith) requires smax(w) >= smax(u), smax(w) >= x, k >= 1real;
    }
}
// the mean never leaves the interval spanned by the averaged values
pub proof fn lemma_mean_in_hull(w: Seq<T>)
    requires w.len() > 0
    ensures smin(w) <= rdiv(sum(w), w.len() as real) <= smax(w)
{
    lemma_sum_bounds(w);
    lemma_rdiv_ge_k(sum(w), w.len() as real, smin(w));
    lemma_rdiv_le_k(sum(w), w.len() as real, smax(w));
}
pub open spec fn all_eq(w: Seq<T>, c: real) -> bool { forall|i: int| 0 <= i < w.len() ==> (#[trigger] w[i]).v() == c }
pub proof fn lemma_sum_const(w: Seq<T>, c: real)
    requires all_eq(w, c)
    ensures sum(w) == (w.len() as real) * c
    decreases w.len()
{
    if w.len() > 0 {
        lemma_sum_const(w.drop_last(), c);
        assert(w.last() == w[w.len() - 1]);
        let k = w.drop_last().len() as real;
        assert((k + 1real) * c == k * c + c) by(nonlinear_arith);
    } else { assert(0real * c == 0real) by(nonlinear_arith); }
}
// a constant window is reproduced exactly
pub proof fn lemma_mean_const(w: Seq<T>, c: real)
    requires w.len() > 0, all_eq(w, c)
    ensures rdiv(sum(w), w.len() as real) == c
{
    lemma_sum_const(w, c);
    let n = w.len() as real;
    lemma_mul_comm(c, n);
    lemma_rdiv_unique(c, sum(w), n);
}
pub open spec fn pointwise_le(u: Seq<T>, w: Seq<T>) -> bool { u.len() == w.len() && forall|i: int| 0 <= i < u.len() ==> (#[trigger] u[i]).v() <= w[i].v() }
pub proof fn lemma_sum_monotone(u: Seq<T>, w: Seq<T>)
    requires pointwise_le(u, w)
    ensures sum(u) <= sum(w)
    decreases u.len()
{
    if u.len() > 0 {
        assert(pointwise_le(u.drop_last(), w.drop_last())) by {
            assert forall|i: int| 0 <= i < u.drop_last().len() implies (#[trigger] u.drop_last()[i]).v() <= w.drop_last()[i].v() by { assert(u.drop_last()[i] == u[i]); assert(w.drop_last()[i] == w[i]); }
        }
        lemma_sum_monotone(u.drop_last(), w.drop_last());
        assert(u.last() == u[u.len() - 1]); assert(w.last() == w[w.len() - 1]);
    }
}
// raising any input never lowers the mean
pub proof fn lemma_mean_monotone(u: Seq<T>, w: Seq<T>)
    requires u.len() > 0, pointwise_le(u, w)
    ensures rdiv(sum(u), u.len() as real) <= rdiv(sum(w), w.len() as real)
{
    lemma_sum_monotone(u, w);
    let n = u.len() as real;
    lemma_rdiv_mul(sum(u), n); lemma_rdiv_mul(sum(w), n);
    assert(rdiv(sum(u), n) <= rdiv(sum(w), n)) by(nonlinear_arith) requires rdiv(sum(u), n) * n == sum(u), rdiv(sum(w), n) * n == sum(w), sum(u) <= sum(w), n > 0real;
}
pub open spec fn affine(w: Seq<T>, a: real, b: real) -> Seq<T> { Seq::new(w.len(), |i: int| mk(a * w[i].v() + b)) }
pub proof fn lemma_sum_affine(w: Seq<T>, a: real, b: real)
    ensures sum(affine(w, a, b)) == a * sum(w) + (w.len() as real) * b
    decreases w.len()
{
    if w.len() > 0 {
        lemma_sum_affine(w.drop_last(), a, b);
        assert(affine(w, a, b).drop_last() =~= affine(w.drop_last(), a, b));
        assert(affine(w, a, b).last().v() == a * w.last().v() + b);
        let k = w.drop_last().len() as real; let s = sum(w.drop_last()); let x = w.last().v();
        assert(a * (s + x) + (k + 1real) * b == (a * s + k * b) + (a * x + b)) by(nonlinear_arith);
    } else {
        assert(affine(w, a, b) =~= Seq::<T>::empty());
        assert(a * 0real + 0real * b == 0real) by(nonlinear_arith);
    }
}
// the mean commutes with x -> a x + b
pub proof fn lemma_mean_affine(w: Seq<T>, a: real, b: real)
    requires w.len() > 0
    ensures rdiv(sum(affine(w, a, b)), w.len() as real) == a * rdiv(sum(w), w.len() as real) + b
{
    lemma_sum_affine(w, a, b);
    let n = w.len() as real; let m = rdiv(sum(w), n);
    lemma_rdiv_mul(sum(w), n);
    assert((a * m + b) * n == a * (m * n) + n * b) by(nonlinear_arith);
    lemma_rdiv_unique(a * m + b, sum(affine(w, a, b)), n);
}
pub proof fn lemma_affine_index(w: Seq<T>, a: real, b: real)
    ensures affine(w, a, b).len() == w.len(), forall|i: int| 0 <= i < w.len() ==> (#[trigger] affine(w, a, b)[i]).v() == a * w[i].v() + b
{}
pub proof fn lemma_smin_affine(w: Seq<T>, a: real, b: real)
    requires w.len() > 0, a > 0real
    ensures smin(affine(w, a, b)) == a * smin(w) + b, smax(affine(w, a, b)) == a * smax(w) + b
{
    let v = affine(w, a, b);
    lemma_smin_is_min(w); lemma_smax_is_max(w);
    let i0 = choose|i: int| 0 <= i < w.len() && smin(w) == w[i].v();
    let i1 = choose|i: int| 0 <= i < w.len() && smax(w) == w[i].v();
    assert(v[i0].v() == a * smin(w) + b); assert(v[i1].v() == a * smax(w) + b);
    assert forall|i: int| 0 <= i < v.len() implies a * smin(w) + b <= #[trigger] v[i].v() by {
        assert(a * smin(w) <= a * w[i].v()) by(nonlinear_arith) requires a > 0real, smin(w) <= w[i].v();
    }
    assert forall|i: int| 0 <= i < v.len() implies a * smax(w) + b >= #[trigger] v[i].v() by {
        assert(a * smax(w) >= a * w[i].v()) by(nonlinear_arith) requires a > 0real, smax(w) >= w[i].v();
    }
    lemma_smin_unique(a * smin(w) + b, v); lemma_smax_unique(a * smax(w) + b, v);
}
// negation swaps Min with -Max
pub proof fn lemma_smin_negate(w: Seq<T>)
    requires w.len() > 0
    ensures smin(affine(w, -1real, 0real)) == -smax(w), smax(affine(w, -1real, 0real)) == -smin(w)
{
    let v = affine(w, -1real, 0real);
    lemma_smin_is_min(w); lemma_smax_is_max(w);
    let i0 = choose|i: int| 0 <= i < w.len() && smin(w) == w[i].v();
    let i1 = choose|i: int| 0 <= i < w.len() && smax(w) == w[i].v();
    assert(v[i0].v() == -smin(w)); assert(v[i1].v() == -smax(w));
    assert forall|i: int| 0 <= i < v.len() implies -smax(w) <= #[trigger] v[i].v() by { assert(v[i].v() == -w[i].v()); }
    assert forall|i: int| 0 <= i < v.len() implies -smin(w) >= #[trigger] v[i].v() by { assert(v[i].v() == -w[i].v()); }
    lemma_smin_unique(-smax(w), v); lemma_smax_unique(-smin(w), v);
}
// variance under x -> a x + b
pub proof fn lemma_sumsq_affine(w: Seq<T>, a: real, b: real)
    ensures sumsq(affine(w, a, b)) == (a * a) * sumsq(w) + 2real * (a * b) * sum(w) + (w.len() as real) * (b * b)
    decreases w.len()
{
    if w.len() > 0 {
        lemma_sumsq_affine(w.drop_last(), a, b);
        assert(affine(w, a, b).drop_last() =~= affine(w.drop_last(), a, b));
        let x = w.last().v(); let k = w.drop_last().len() as real;
        assert(affine(w, a, b).last().v() == a * x + b);
        assert(w.len() as real == k + 1real);
        assert((a * x + b) * (a * x + b) == (a * a) * (x * x) + 2real * (a * b) * x + b * b) by(nonlinear_arith);
        assert((a * a) * (sumsq(w.drop_last()) + x * x) == (a * a) * sumsq(w.drop_last()) + (a * a) * (x * x)) by(nonlinear_arith);
        assert(2real * (a * b) * (sum(w.drop_last()) + x) == 2real * (a * b) * sum(w.drop_last()) + 2real * (a * b) * x) by(nonlinear_arith);
        assert((k + 1real) * (b * b) == k * (b * b) + b * b) by(nonlinear_arith);
    } else { assert((a * a) * 0real == 0real && 2real * (a * b) * 0real == 0real && 0real * (b * b) == 0real) by(nonlinear_arith); }
}
// number of unordered pairs among m - 1 values and its closed form (shared by the NET range and trend corollaries)
pub open spec fn pairs(m: int) -> real decreases m { if m <= 2 { 0real } else { pairs(m - 1) + ((m - 2) as real) } }   // sum_{c=2}^{m-1} (c-1)
pub proof fn lemma_pairs_closed(m: int)
    requires m >= 2
    ensures pairs(m) * 2real == ((m - 1) as real) * ((m - 2) as real)
    decreases m
{
    if m > 2 {
        lemma_pairs_closed(m - 1);
        let k = (m - 2) as real;
        assert((m - 1) as real == k + 1real); assert((m - 3) as real == k - 1real);
        assert((k + 1real) * k == k * (k - 1real) + 2real * k) by(nonlinear_arith);
    } else { assert(1real * 0real == 0real) by(nonlinear_arith); }
}
