// C03: the output of a windowed view over Echo is determined by the last K delivered values.
// Each lemma: two histories (any lengths, any prefixes) that agree on their last K values give the same output.
use crate::props::c02_history::*;

pub open spec fn suffix(h: Seq<T>, k: nat) -> Seq<T> { h.subrange(h.len() - k, h.len() as int) }
pub proof fn lemma_pred_suffix(h1: Seq<T>, h2: Seq<T>, n: nat)
    requires n >= 1, h1.len() >= n + 1, h2.len() >= n + 1, suffix(h1, n + 1) == suffix(h2, n + 1)
    ensures pred_of(h1, n) == pred_of(h2, n)
{
    assert(suffix(h1, n + 1)[0] == h1[h1.len() - n - 1]);
    assert(suffix(h2, n + 1)[0] == h2[h2.len() - n - 1]);
}

pub proof fn lemma_finite_memory_sma(h1: Seq<T>, h2: Seq<T>, n: nat)
    requires n >= 1, h1.len() >= n, h2.len() >= n, suffix(h1, n) == suffix(h2, n)
    ensures Sma::<Echo>::out(run::<Sma<Echo>>((None::<T>, SmaOwn { n: n, w: Seq::<T>::empty() }), h1)) == Sma::<Echo>::out(run::<Sma<Echo>>((None::<T>, SmaOwn { n: n, w: Seq::<T>::empty() }), h2))
{
    lemma_run_sma(h1, n); lemma_run_sma(h2, n);
    lemma_win_suffix(h1, h2, n, n); 
}
pub proof fn lemma_finite_memory_cumulative(h1: Seq<T>, h2: Seq<T>, n: nat)
    requires n >= 1, h1.len() >= n, h2.len() >= n, suffix(h1, n) == suffix(h2, n)
    ensures Cumulative::<Echo>::out(run::<Cumulative<Echo>>((None::<T>, CumulativeOwn { n: n, w: Seq::<T>::empty() }), h1)) == Cumulative::<Echo>::out(run::<Cumulative<Echo>>((None::<T>, CumulativeOwn { n: n, w: Seq::<T>::empty() }), h2))
{
    lemma_run_cumulative(h1, n); lemma_run_cumulative(h2, n);
    lemma_win_suffix(h1, h2, n, n); 
}
pub proof fn lemma_finite_memory_min(h1: Seq<T>, h2: Seq<T>, n: nat)
    requires n >= 1, h1.len() >= n, h2.len() >= n, suffix(h1, n) == suffix(h2, n)
    ensures Min::<Echo>::out(run::<Min<Echo>>((None::<T>, MinOwn { n: n, w: Seq::<T>::empty() }), h1)) == Min::<Echo>::out(run::<Min<Echo>>((None::<T>, MinOwn { n: n, w: Seq::<T>::empty() }), h2))
{
    lemma_run_min(h1, n); lemma_run_min(h2, n);
    lemma_win_suffix(h1, h2, n, n); 
}
pub proof fn lemma_finite_memory_max(h1: Seq<T>, h2: Seq<T>, n: nat)
    requires n >= 1, h1.len() >= n, h2.len() >= n, suffix(h1, n) == suffix(h2, n)
    ensures Max::<Echo>::out(run::<Max<Echo>>((None::<T>, MaxOwn { n: n, w: Seq::<T>::empty() }), h1)) == Max::<Echo>::out(run::<Max<Echo>>((None::<T>, MaxOwn { n: n, w: Seq::<T>::empty() }), h2))
{
    lemma_run_max(h1, n); lemma_run_max(h2, n);
    lemma_win_suffix(h1, h2, n, n); 
}
pub proof fn lemma_finite_memory_welford_online(h1: Seq<T>, h2: Seq<T>, n: nat)
    requires n >= 1, h1.len() >= n, h2.len() >= n, suffix(h1, n) == suffix(h2, n)
    ensures WelfordOnline::<Echo>::out(run::<WelfordOnline<Echo>>((None::<T>, WelfordOnlineOwn { n: n, w: Seq::<T>::empty() }), h1)) == WelfordOnline::<Echo>::out(run::<WelfordOnline<Echo>>((None::<T>, WelfordOnlineOwn { n: n, w: Seq::<T>::empty() }), h2))
{
    lemma_run_welford_online(h1, n); lemma_run_welford_online(h2, n);
    lemma_win_suffix(h1, h2, n, n); 
}
pub proof fn lemma_finite_memory_hl_normalizer(h1: Seq<T>, h2: Seq<T>, n: nat)
    requires n >= 1, h1.len() >= n, h2.len() >= n, suffix(h1, n) == suffix(h2, n)
    ensures HLNormalizer::<Echo>::out(run::<HLNormalizer<Echo>>((None::<T>, HLNormalizerOwn { n: n, w: Seq::<T>::empty() }), h1)) == HLNormalizer::<Echo>::out(run::<HLNormalizer<Echo>>((None::<T>, HLNormalizerOwn { n: n, w: Seq::<T>::empty() }), h2))
{
    lemma_run_hl_normalizer(h1, n); lemma_run_hl_normalizer(h2, n);
    lemma_win_suffix(h1, h2, n, n); 
}
pub proof fn lemma_finite_memory_center_of_gravity(h1: Seq<T>, h2: Seq<T>, n: nat)
    requires n >= 1, h1.len() >= n, h2.len() >= n, suffix(h1, n) == suffix(h2, n)
    ensures CenterOfGravity::<Echo>::out(run::<CenterOfGravity<Echo>>((None::<T>, CenterOfGravityOwn { n: n, w: Seq::<T>::empty() }), h1)) == CenterOfGravity::<Echo>::out(run::<CenterOfGravity<Echo>>((None::<T>, CenterOfGravityOwn { n: n, w: Seq::<T>::empty() }), h2))
{
    lemma_run_center_of_gravity(h1, n); lemma_run_center_of_gravity(h2, n);
    lemma_win_suffix(h1, h2, n, n); 
}
pub proof fn lemma_finite_memory_cti(h1: Seq<T>, h2: Seq<T>, n: nat)
    requires n >= 1, h1.len() >= n, h2.len() >= n, suffix(h1, n) == suffix(h2, n)
    ensures CorrelationTrendIndicator::<Echo>::out(run::<CorrelationTrendIndicator<Echo>>((None::<T>, CorrelationTrendIndicatorOwn { n: n, w: Seq::<T>::empty() }), h1)) == CorrelationTrendIndicator::<Echo>::out(run::<CorrelationTrendIndicator<Echo>>((None::<T>, CorrelationTrendIndicatorOwn { n: n, w: Seq::<T>::empty() }), h2))
{
    lemma_run_cti(h1, n); lemma_run_cti(h2, n);
    lemma_win_suffix(h1, h2, n, n); 
}
pub proof fn lemma_finite_memory_rsi(h1: Seq<T>, h2: Seq<T>, n: nat)
    requires n >= 1, h1.len() >= n + 1, h2.len() >= n + 1, suffix(h1, n + 1) == suffix(h2, n + 1)
    ensures Rsi::<Echo>::out(run::<Rsi<Echo>>((None::<T>, RsiOwn { n: n, w: Seq::<T>::empty(), pred: mk(0real) }), h1)) == Rsi::<Echo>::out(run::<Rsi<Echo>>((None::<T>, RsiOwn { n: n, w: Seq::<T>::empty(), pred: mk(0real) }), h2))
{
    lemma_run_rsi(h1, n); lemma_run_rsi(h2, n);
    lemma_win_suffix(h1, h2, n, n + 1); lemma_pred_suffix(h1, h2, n);
}
// NET: determined by the window once it holds two values (K = N >= 2)
pub proof fn lemma_finite_memory_net(h1: Seq<T>, h2: Seq<T>, n: nat)
    requires n >= 2, h1.len() >= n, h2.len() >= n, suffix(h1, n) == suffix(h2, n)
    ensures NoiseEliminationTechnology::<Echo>::out(run::<NoiseEliminationTechnology<Echo>>((None::<T>, NoiseEliminationTechnologyOwn { n: n, w: Seq::<T>::empty(), o: None::<T> }), h1))
         == NoiseEliminationTechnology::<Echo>::out(run::<NoiseEliminationTechnology<Echo>>((None::<T>, NoiseEliminationTechnologyOwn { n: n, w: Seq::<T>::empty(), o: None::<T> }), h2))
{
    lemma_run_net(h1, n); lemma_run_net(h2, n); lemma_win_suffix(h1, h2, n, n);
}
// Roc: K = N + 1, except while it is holding its previous output because the base is 0 (the exception stated in C03)
pub proof fn lemma_finite_memory_roc(h1: Seq<T>, h2: Seq<T>, n: nat)
    requires n >= 1, h1.len() >= n + 1, h2.len() >= n + 1, suffix(h1, n + 1) == suffix(h2, n + 1), h1[h1.len() - n - 1].v() != 0real
    ensures Roc::<Echo>::out(run::<Roc<Echo>>((None::<T>, RocOwn { n: n, w: Seq::<T>::empty(), base: None::<T>, o: None::<T> }), h1))
         == Roc::<Echo>::out(run::<Roc<Echo>>((None::<T>, RocOwn { n: n, w: Seq::<T>::empty(), base: None::<T>, o: None::<T> }), h2))
{
    lemma_run_roc(h1, n); lemma_run_roc(h2, n);
    assert(suffix(h1, n + 1)[0] == h1[h1.len() - n - 1]); assert(suffix(h2, n + 1)[0] == h2[h2.len() - n - 1]);
    assert(suffix(h1, n + 1).last() == h1.last()); assert(suffix(h2, n + 1).last() == h2.last());
}
// MyRSI: K = N + 1, except while it is holding its previous output because the window is flat (G + L = 0)
pub proof fn lemma_finite_memory_my_rsi(h1: Seq<T>, h2: Seq<T>, n: nat)
    requires n >= 1, h1.len() >= n + 1, h2.len() >= n + 1, suffix(h1, n + 1) == suffix(h2, n + 1),
        gains(win(h1, n), pred_of(h1, n)) + losses(win(h1, n), pred_of(h1, n)) != 0real
    ensures MyRSI::<Echo>::out(run::<MyRSI<Echo>>((None::<T>, MyRSIOwn { n: n, w: Seq::<T>::empty(), pred: mk(0real), held: mk(0real) }), h1))
         == MyRSI::<Echo>::out(run::<MyRSI<Echo>>((None::<T>, MyRSIOwn { n: n, w: Seq::<T>::empty(), pred: mk(0real), held: mk(0real) }), h2))
{
    lemma_win_suffix(h1, h2, n, n + 1); lemma_pred_suffix(h1, h2, n);
    lemma_my_rsi_closed_form(h1, n); lemma_my_rsi_closed_form(h2, n);
}
// Vst / Vsct: K = N (the embedded Welford window and the newest value)
pub proof fn lemma_finite_memory_vst(h1: Seq<T>, h2: Seq<T>, n: nat)
    requires n >= 1, h1.len() >= n, h2.len() >= n, suffix(h1, n) == suffix(h2, n)
    ensures Vst::<Echo>::out(run::<Vst<Echo>>((None::<T>, VstOwn { last: mk(0real), wo: (None::<T>, WelfordOnlineOwn { n: n, w: Seq::<T>::empty() }) }), h1))
         == Vst::<Echo>::out(run::<Vst<Echo>>((None::<T>, VstOwn { last: mk(0real), wo: (None::<T>, WelfordOnlineOwn { n: n, w: Seq::<T>::empty() }) }), h2))
{
    lemma_run_vst(h1, n); lemma_run_vst(h2, n); lemma_win_suffix(h1, h2, n, n);
    assert(suffix(h1, n).last() == h1.last()); assert(suffix(h2, n).last() == h2.last());
}
pub proof fn lemma_finite_memory_vsct(h1: Seq<T>, h2: Seq<T>, n: nat)
    requires n >= 1, h1.len() >= n, h2.len() >= n, suffix(h1, n) == suffix(h2, n)
    ensures Vsct::<Echo>::out(run::<Vsct<Echo>>((None::<T>, VsctOwn { last: mk(0real), wo: (None::<T>, WelfordOnlineOwn { n: n, w: Seq::<T>::empty() }) }), h1))
         == Vsct::<Echo>::out(run::<Vsct<Echo>>((None::<T>, VsctOwn { last: mk(0real), wo: (None::<T>, WelfordOnlineOwn { n: n, w: Seq::<T>::empty() }) }), h2))
{
    lemma_run_vsct(h1, n); lemma_run_vsct(h2, n); lemma_win_suffix(h1, h2, n, n);
    assert(suffix(h1, n).last() == h1.last()); assert(suffix(h2, n).last() == h2.last());
}
