// C03 for BinaryEntropy: K = N
use crate::props::c00_window::*;
use crate::props::c03_0_suffix::*;
use crate::props::c02_h_binary_entropy::*;
pub proof fn lemma_rwin_suffix(h1: Seq<T>, h2: Seq<T>, n: nat)
    requires n >= 1, h1.len() >= n, h2.len() >= n, suffix(h1, n) == suffix(h2, n)
    ensures rwin(h1, n) == rwin(h2, n)
{
    assert forall|i: int| 0 <= i < n implies rwin(h1, n)[i] == rwin(h2, n)[i] by {
        assert(suffix(h1, n)[n - 1 - i] == h1[h1.len() - 1 - i]);
        assert(suffix(h2, n)[n - 1 - i] == h2[h2.len() - 1 - i]);
    }
    assert(rwin(h1, n) =~= rwin(h2, n));
}
pub proof fn lemma_finite_memory_binary_entropy(h1: Seq<T>, h2: Seq<T>, n: nat)
    requires n >= 1, h1.len() >= n, h2.len() >= n, suffix(h1, n) == suffix(h2, n)
    ensures BinaryEntropy::<Echo>::out(run::<BinaryEntropy<Echo>>((None::<T>, BinaryEntropyOwn { n: n, w: Seq::<T>::empty() }), h1))
         == BinaryEntropy::<Echo>::out(run::<BinaryEntropy<Echo>>((None::<T>, BinaryEntropyOwn { n: n, w: Seq::<T>::empty() }), h2))
{
    lemma_binary_entropy_closed_form(h1, n); lemma_binary_entropy_closed_form(h2, n);
    lemma_rwin_suffix(h1, h2, n);
}
