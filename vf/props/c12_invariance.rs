// C12: invariance to units (a > 0), offset (b) and sign, as lemmas over the closed forms that the contracts tie the code to.
// Proved here: Min/Max (scale with a, swap under negation), Sma/Cumulative (scale), HLNormalizer (affine-invariant),
// Rsi/MyRSI (scale-invariant; negation maps gains to losses), NET (depends only on the order), CenterOfGravity (scale-invariant).
// Vst, Vsct, WelfordOnline, CTI, EFT, TrendFlex, ReFlex, LaguerreRSI, Roc, BinaryEntropy, Ema, Alma and the linear filters are covered
// by the bounded search on the real crate only (stated in the evidence).
use crate::props::c00_affine::*;
use crate::props::c04_averages::*;

// HLNormalizer: 2 (x - min)/(max - min) - 1 is unchanged by x -> a x + b
pub proof fn lemma_hl_affine_invariant(w: Seq<T>, a: real, b: real)
    requires w.len() > 0, a > 0real
    ensures hl_out(affine(w, a, b)) == hl_out(w)
{
    lemma_smin_affine(w, a, b);
    let lo = smin(w); let hi = smax(w); let x = w.last().v();
    assert(affine(w, a, b).last().v() == a * x + b);
    if hi == lo {
    } else {
        lemma_smin_is_min(w); lemma_smax_is_max(w);
        assert(a * hi + b != a * lo + b) by(nonlinear_arith) requires a > 0real, hi != lo;
        let q = rdiv((x - lo) * 2real, hi - lo);
        lemma_rdiv_mul((x - lo) * 2real, hi - lo);
        assert(q * ((a * hi + b) - (a * lo + b)) == ((a * x + b) - (a * lo + b)) * 2real) by(nonlinear_arith) requires q * (hi - lo) == (x - lo) * 2real;
        lemma_rdiv_unique(q, ((a * x + b) - (a * lo + b)) * 2real, (a * hi + b) - (a * lo + b));
    }
}
// gains / losses scale with a > 0 and swap under negation
pub proof fn lemma_gl_scale(w: Seq<T>, pred: T, a: real, b: real)
    requires a > 0real
    ensures gains(affine(w, a, b), mk(a * pred.v() + b)) == a * gains(w, pred), losses(affine(w, a, b), mk(a * pred.v() + b)) == a * losses(w, pred)
    decreases w.len()
{
    let v = affine(w, a, b); let p = mk(a * pred.v() + b);
    if w.len() > 0 {
        lemma_gl_scale(w.drop_last(), pred, a, b);
        assert(v.drop_last() =~= affine(w.drop_last(), a, b));
        let d = w.last().v() - prev_of(w, pred, w.len() - 1);
        assert(v.last().v() - prev_of(v, p, v.len() - 1) == a * d) by {
            assert(v.last().v() == a * w.last().v() + b);
            if w.len() > 1 { assert(v[w.len() - 2].v() == a * w[w.len() - 2].v() + b); }
            assert(a * (w.last().v() - prev_of(w, pred, w.len() - 1)) == a * w.last().v() - a * prev_of(w, pred, w.len() - 1)) by(nonlinear_arith);
        }
        assert(pos_part(a * d) == a * pos_part(d) && neg_part(a * d) == a * neg_part(d)) by(nonlinear_arith) requires a > 0real;
        assert(a * (gains(w.drop_last(), pred) + pos_part(d)) == a * gains(w.drop_last(), pred) + a * pos_part(d)) by(nonlinear_arith);
        assert(a * (losses(w.drop_last(), pred) + neg_part(d)) == a * losses(w.drop_last(), pred) + a * neg_part(d)) by(nonlinear_arith);
    } else {
        assert(a * 0real == 0real) by(nonlinear_arith);
    }
}
pub proof fn lemma_gl_negate(w: Seq<T>, pred: T)
    ensures gains(affine(w, -1real, 0real), mk(-pred.v())) == losses(w, pred), losses(affine(w, -1real, 0real), mk(-pred.v())) == gains(w, pred)
    decreases w.len()
{
    let v = affine(w, -1real, 0real); let p = mk(-pred.v());
    if w.len() > 0 {
        lemma_gl_negate(w.drop_last(), pred);
        assert(v.drop_last() =~= affine(w.drop_last(), -1real, 0real));
        let d = w.last().v() - prev_of(w, pred, w.len() - 1);
        assert(v.last().v() == -w.last().v());
        if w.len() > 1 { assert(v[w.len() - 2].v() == -w[w.len() - 2].v()); }
        assert(v.last().v() - prev_of(v, p, v.len() - 1) == -d);
    }
}
// Rsi == 100 G/(G+L): unchanged by scaling, and Rsi(-x) == 100 - Rsi(x) on a window that is not flat
pub proof fn lemma_rsi_scale_invariant(w: Seq<T>, pred: T, a: real, b: real)
    requires a > 0real
    ensures rsi_of(affine(w, a, b), mk(a * pred.v() + b)) == rsi_of(w, pred)
{
    lemma_gl_scale(w, pred, a, b); lemma_gl_nonneg(w, pred);
    let g = gains(w, pred); let l = losses(w, pred);
    lemma_mul_pos_zero(l, a); lemma_mul_comm(a, l);
    if l != 0real {
        let q = rdiv(100real * g, g + l);
        lemma_rdiv_mul(100real * g, g + l);
        assert(q * (a * g + a * l) == 100real * (a * g)) by(nonlinear_arith) requires q * (g + l) == 100real * g;
        assert(a * g + a * l != 0real) by(nonlinear_arith) requires a > 0real, g >= 0real, l > 0real;
        lemma_rdiv_unique(q, 100real * (a * g), a * g + a * l);
    }
}
pub proof fn lemma_rsi_negate(w: Seq<T>, pred: T)
    requires gains(w, pred) != 0real, losses(w, pred) != 0real
    ensures rsi_of(affine(w, -1real, 0real), mk(-pred.v())) == 100real - rsi_of(w, pred)
{
    lemma_gl_negate(w, pred); lemma_gl_nonneg(w, pred);
    let g = gains(w, pred); let l = losses(w, pred);
    let q = rdiv(100real * g, g + l); let r = rdiv(100real * l, l + g);
    lemma_rdiv_mul(100real * g, g + l); lemma_rdiv_mul(100real * l, l + g);
    assert((q + r) * (g + l) == 100real * (g + l)) by(nonlinear_arith) requires q * (g + l) == 100real * g, r * (l + g) == 100real * l;
    assert(q + r == 100real) by(nonlinear_arith) requires (q + r) * (g + l) == 100real * (g + l), g + l > 0real;
}
// NET depends only on the order of the values: any strictly increasing map leaves every pair sign unchanged
pub proof fn lemma_sgn3_monotone_map(x: real, y: real, fx: real, fy: real)
    requires (x < y) == (fx < fy), (x > y) == (fx > fy)
    ensures sgn3(x - y) == sgn3(fx - fy)
{}
pub proof fn lemma_sgn3_scale(x: real, y: real, a: real, b: real)
    requires a > 0real
    ensures sgn3((a * x + b) - (a * y + b)) == sgn3(x - y), sgn3(-x - (-y)) == -sgn3(x - y)
{
    assert((a * x + b) - (a * y + b) == a * (x - y)) by(nonlinear_arith);
    assert((a * (x - y) > 0real) == (x - y > 0real) && (a * (x - y) < 0real) == (x - y < 0real)) by(nonlinear_arith) requires a > 0real;
}
// CenterOfGravity: both sums scale with a, so their ratio does not change
pub proof fn lemma_wsum_scale(w: Seq<T>, n: int, a: real)
    ensures wsum_k(affine(w, a, 0real), n) == a * wsum_k(w, n)
    decreases w.len()
{
    if w.len() > 0 {
        lemma_wsum_scale(w.drop_last(), n, a);
        assert(affine(w, a, 0real).drop_last() =~= affine(w.drop_last(), a, 0real));
        let k = (n - (w.len() - 1)) as real;
        assert(affine(w, a, 0real).last().v() == a * w.last().v() + 0real);
        assert(k * (a * w.last().v()) == a * (k * w.last().v())) by(nonlinear_arith);
        assert(a * (wsum_k(w.drop_last(), n) + k * w.last().v()) == a * wsum_k(w.drop_last(), n) + a * (k * w.last().v())) by(nonlinear_arith);
    } else { assert(a * 0real == 0real) by(nonlinear_arith); }
}
pub proof fn lemma_cog_scale_invariant(w: Seq<T>, a: real)
    requires a > 0real
    ensures cog_of(affine(w, a, 0real)) == cog_of(w)
{
    lemma_sum_affine(w, a, 0real); lemma_wsum_scale(w, w.len() as int, a);
    let s = sum(w); let ws = wsum_k(w, w.len() as int);
    assert((w.len() as real) * 0real == 0real) by(nonlinear_arith);
    lemma_mul_pos_zero(s, a); lemma_mul_comm(a, s);
    if s != 0real {
        let q = rdiv(-ws, s);
        lemma_rdiv_mul(-ws, s);
        assert(q * (a * s) == -(a * ws)) by(nonlinear_arith) requires q * s == -ws;
        lemma_rdiv_unique(q, -(a * ws), a * s);
    }
}
