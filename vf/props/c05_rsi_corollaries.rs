// C05 corollaries over the closed forms: monotone windows give the extreme values
pub open spec fn non_falling(w: Seq<T>, pred: T) -> bool { forall|i: int| 0 <= i < w.len() ==> (#[trigger] w[i]).v() >= prev_of(w, pred, i) }
pub open spec fn non_rising(w: Seq<T>, pred: T) -> bool { forall|i: int| 0 <= i < w.len() ==> (#[trigger] w[i]).v() <= prev_of(w, pred, i) }
pub proof fn lemma_non_falling_no_losses(w: Seq<T>, pred: T)
    requires non_falling(w, pred)
    ensures losses(w, pred) == 0real
    decreases w.len()
{
    if w.len() > 0 {
        let u = w.drop_last();
        assert(non_falling(u, pred)) by { assert forall|i: int| 0 <= i < u.len() implies (#[trigger] u[i]).v() >= prev_of(u, pred, i) by { assert(u[i] == w[i]); if i > 0 { assert(u[i - 1] == w[i - 1]); } } }
        lemma_non_falling_no_losses(u, pred);
        assert(w.last() == w[w.len() - 1]);
    }
}
pub proof fn lemma_non_rising_no_gains(w: Seq<T>, pred: T)
    requires non_rising(w, pred)
    ensures gains(w, pred) == 0real
    decreases w.len()
{
    if w.len() > 0 {
        let u = w.drop_last();
        assert(non_rising(u, pred)) by { assert forall|i: int| 0 <= i < u.len() implies (#[trigger] u[i]).v() <= prev_of(u, pred, i) by { assert(u[i] == w[i]); if i > 0 { assert(u[i - 1] == w[i - 1]); } } }
        lemma_non_rising_no_gains(u, pred);
        assert(w.last() == w[w.len() - 1]);
    }
}
// a rising window (no fall, at least one rise): Rsi = 100 and MyRSI's ratio = +1
pub proof fn lemma_rising_window(w: Seq<T>, pred: T)
    requires non_falling(w, pred), gains(w, pred) > 0real
    ensures rsi_of(w, pred) == 100real, rdiv(gains(w, pred) - losses(w, pred), gains(w, pred) + losses(w, pred)) == 1real
{
    lemma_non_falling_no_losses(w, pred);
    lemma_rdiv_sign(gains(w, pred), gains(w, pred));
}
// a falling window: Rsi = 0 and MyRSI's ratio = -1
pub proof fn lemma_falling_window(w: Seq<T>, pred: T)
    requires non_rising(w, pred), losses(w, pred) > 0real
    ensures rsi_of(w, pred) == 0real, rdiv(gains(w, pred) - losses(w, pred), gains(w, pred) + losses(w, pred)) == -1real
{
    lemma_non_rising_no_gains(w, pred);
    let l = losses(w, pred);
    lemma_rdiv_sign(0real, l);
    assert(100real * 0real == 0real) by(nonlinear_arith);
    lemma_rdiv_unique(-1real, -l, l);
}
