// C02/C05/C06 at history level for this view (over Echo): abstract window == last N values; closed-form output
use crate::props::c00_window::*;
pub proof fn lemma_run_cti(h: Seq<T>, n: nat)
    requires n >= 1
    ensures ({ let s = run::<CorrelationTrendIndicator<Echo>>((None::<T>, CorrelationTrendIndicatorOwn { n: n, w: Seq::<T>::empty() }), h);
               s.0 == echo_of(h) && s.1 == CorrelationTrendIndicatorOwn { n: n, w: win(h, n) } })
    decreases h.len()
{
    if h.len() > 0 { lemma_run_cti(h.drop_last(), n); lemma_win_step(h, n); }
    else { assert(win(h, n) =~= Seq::<T>::empty()); }
}
pub proof fn lemma_cti_closed_form(h: Seq<T>, n: nat)
    requires n >= 1
    ensures CorrelationTrendIndicator::<Echo>::out(run::<CorrelationTrendIndicator<Echo>>((None::<T>, CorrelationTrendIndicatorOwn { n: n, w: Seq::<T>::empty() }), h))
        == (Some(mk(r_clamp(cti_of(win(h, n), win(h, n).len() as real), -1real, 1real))))
{
    lemma_run_cti(h, n);
}
