// C02/C05/C06 at history level for this view (over Echo): abstract window == last N values; closed-form output
use crate::props::c00_window::*;
pub proof fn lemma_run_rsi(h: Seq<T>, n: nat)
    requires n >= 1
    ensures ({ let s = run::<Rsi<Echo>>((None::<T>, RsiOwn { n: n, w: Seq::<T>::empty(), pred: mk(0real) }), h);
               s.0 == echo_of(h) && s.1 == RsiOwn { n: n, w: win(h, n), pred: pred_of(h, n) } })
    decreases h.len()
{
    if h.len() > 0 { lemma_run_rsi(h.drop_last(), n); lemma_win_step(h, n); lemma_pred_step(h, n); }
    else { assert(win(h, n) =~= Seq::<T>::empty()); }
}
// Rsi == 100 G/(G+L) over the N most recent values (100 when L == 0), from the N-th value on  (C05 at history level)
pub proof fn lemma_rsi_closed_form(h: Seq<T>, n: nat)
    requires n >= 1
    ensures Rsi::<Echo>::out(run::<Rsi<Echo>>((None::<T>, RsiOwn { n: n, w: Seq::<T>::empty(), pred: mk(0real) }), h))
        == (if h.len() < n { None::<T> } else { Some(mk(rsi_of(win(h, n), pred_of(h, n)))) })
{ lemma_run_rsi(h, n); }
