// C09 over whole histories: after two instances have been fed a common tail of m values, the distance of their states is the initial
// distance times c^m with 0 <= c < 1 (geometric convergence, rpow below), and bounded inputs give outputs within a bound that does
// not depend on the length of the stream.  Built by induction from the one-step facts of c09_stability.
use crate::props::c09_stability::*;

pub open spec fn rpow(c: real, m: nat) -> real decreases m { if m == 0 { 1real } else { c * rpow(c, (m - 1) as nat) } }
// a ratio in [0, 1) gives a non-increasing sequence in [0, 1] that is below c from the first step on
pub proof fn lemma_rpow_bounds(c: real, m: nat)
    requires 0real <= c < 1real
    ensures 0real <= rpow(c, m) <= 1real, m >= 1 ==> rpow(c, m) <= c, rpow(c, m + 1) <= rpow(c, m)
    decreases m
{
    if m > 0 {
        lemma_rpow_bounds(c, (m - 1) as nat);
        let p = rpow(c, (m - 1) as nat);
        assert(0real <= c * p <= c) by(nonlinear_arith) requires 0real <= c < 1real, 0real <= p <= 1real;
    }
    let q = rpow(c, m);
    assert(c * q <= q) by(nonlinear_arith) requires 0real <= c < 1real, 0real <= q;
}
// ---- Ema
pub proof fn lemma_ema_common_tail(e1: Option<T>, e2: Option<T>, o1: EmaOwn, o2: EmaOwn, t: Seq<T>)
    requires o1.n == o2.n, o1.alpha == o2.alpha, o1.k > 0, o2.k > 0
    ensures ({ let s1 = run::<Ema<Echo>>((e1, o1), t); let s2 = run::<Ema<Echo>>((e2, o2), t);
               s1.1.n == o1.n && s1.1.alpha == o1.alpha && s1.1.k == o1.k + t.len() && s2.1.n == o2.n && s2.1.alpha == o2.alpha && s2.1.k == o2.k + t.len()
               && s1.1.e.v() - s2.1.e.v() == rpow(1real - ema_weight(o1), t.len()) * (o1.e.v() - o2.e.v()) })
    decreases t.len()
{
    let c = 1real - ema_weight(o1); let d0 = o1.e.v() - o2.e.v();
    if t.len() > 0 {
        lemma_ema_common_tail(e1, e2, o1, o2, t.drop_last());
        let s1 = run::<Ema<Echo>>((e1, o1), t.drop_last()); let s2 = run::<Ema<Echo>>((e2, o2), t.drop_last());
        lemma_ema_contracts(s1.1, s2.1, t.last());
        let p = rpow(c, (t.len() - 1) as nat);
        assert(c * (p * d0) == (c * p) * d0) by(nonlinear_arith);
    } else {
        assert(1real * d0 == d0) by(nonlinear_arith);
    }
}
// bounded input, bounded output: a weight in [0, 1] makes every Ema value a convex combination of inputs
pub proof fn lemma_ema_bibo(i: EmaOwn, h: Seq<T>, b: real)
    requires i.k == 0, 0real <= ema_weight(i) <= 1real, all_within(h, b), h.len() > 0
    ensures ({ let s = run::<Ema<Echo>>((None::<T>, i), h); s.1.n == i.n && s.1.alpha == i.alpha && s.1.k == h.len() && -b <= s.1.e.v() <= b })
    decreases h.len()
{
    let g = h.drop_last(); let y = h.last().v();
    assert(-b <= y <= b) by { assert(h.last() == h[h.len() - 1]); }
    if g.len() > 0 {
        assert(all_within(g, b)) by { assert forall|k: int| 0 <= k < g.len() implies -b <= (#[trigger] g[k]).v() <= b by { assert(g[k] == h[k]); } }
        lemma_ema_bibo(i, g, b);
        let s = run::<Ema<Echo>>((None::<T>, i), g);
        let w = ema_weight(i); let e = s.1.e.v();
        assert(y * w + e * (1real - w) <= b) by(nonlinear_arith) requires 0real <= w <= 1real, y <= b, e <= b;
        assert(y * w + e * (1real - w) >= -b) by(nonlinear_arith) requires 0real <= w <= 1real, y >= -b, e >= -b;
        assert(ema_weight(s.1) == w);
        assert(ema_own_step(s.1, h.last()).e.v() == y * w + e * (1real - w));
    } else {
        let s0 = run::<Ema<Echo>>((None::<T>, i), g);
        assert(s0 == (None::<T>, i));
        assert(ema_own_step(i, h.last()).e == h.last());
    }
}
// ---- SuperSmoother: the Lyapunov form of the difference of two runs decays by a1^2 per common step
pub open spec fn ss_form(n: nat, d1: real, d0: real) -> real { d1 * d1 - ss_b1(n) * (d1 * d0) + (ss_a1(n) * ss_a1(n)) * (d0 * d0) }
pub proof fn lemma_super_smoother_common_tail(e1: Option<T>, e2: Option<T>, o1: SuperSmootherOwn, o2: SuperSmootherOwn, t: Seq<T>, n: nat)
    requires n >= 1, o1.c2 == mk(ss_b1(n)), o1.c3 == mk(ss_c3(n)), o2.c2 == o1.c2, o2.c3 == o1.c3, o2.c1 == o1.c1, o1.x1 == o2.x1
    ensures ({ let s1 = run::<SuperSmoother<Echo>>((e1, o1), t); let s2 = run::<SuperSmoother<Echo>>((e2, o2), t);
               s1.1.c1 == o1.c1 && s1.1.c2 == o1.c2 && s1.1.c3 == o1.c3 && s2.1.c1 == o1.c1 && s2.1.c2 == o1.c2 && s2.1.c3 == o1.c3 && s1.1.x1 == s2.1.x1
               && ss_form(n, s1.1.f1.v() - s2.1.f1.v(), s1.1.f2.v() - s2.1.f2.v())
                  == rpow(ss_a1(n) * ss_a1(n), t.len()) * ss_form(n, o1.f1.v() - o2.f1.v(), o1.f2.v() - o2.f2.v())
               && ss_form(n, s1.1.f1.v() - s2.1.f1.v(), s1.1.f2.v() - s2.1.f2.v()) >= 0real && 0real <= ss_a1(n) * ss_a1(n) < 1real })
    decreases t.len()
{
    lemma_ss_coeffs(n);
    let a = ss_a1(n); let c = r_cos(rdiv(44422real / 10000real, n as real)); let aa = a * a;
    ax_cos_bound(rdiv(44422real / 10000real, n as real));
    assert(0real <= aa < 1real) by(nonlinear_arith) requires 0real < a < 1real, aa == a * a;
    let v0 = ss_form(n, o1.f1.v() - o2.f1.v(), o1.f2.v() - o2.f2.v());
    if t.len() > 0 {
        lemma_super_smoother_common_tail(e1, e2, o1, o2, t.drop_last(), n);
        let s1 = run::<SuperSmoother<Echo>>((e1, o1), t.drop_last()); let s2 = run::<SuperSmoother<Echo>>((e2, o2), t.drop_last());
        lemma_super_smoother_difference(s1.1, s2.1, t.last());
        let d1 = s1.1.f1.v() - s2.1.f1.v(); let d0 = s1.1.f2.v() - s2.1.f2.v();
        lemma_two_pole_contraction(a, c, d0, d1);
        let p = rpow(aa, (t.len() - 1) as nat);
        assert(aa * (p * v0) == (aa * p) * v0) by(nonlinear_arith);
        lemma_two_pole_form_nonneg(a, c, ss_b1(n) * d1 + ss_c3(n) * d0, d1);
    } else {
        assert(1real * v0 == v0) by(nonlinear_arith);
        lemma_two_pole_form_nonneg(a, c, o1.f1.v() - o2.f1.v(), o1.f2.v() - o2.f2.v());
    }
}
// ---- Laguerre ladder (LaguerreFilter, LaguerreRSI): the difference of two runs fed the same value does not depend on that value;
// its first stage decays by gamma per step, the all-pass stages obey d_k' = -gamma d_(k-1)' + d_(k-1) + gamma d_k (a triangular system
// whose only eigenvalue is gamma in (0, 1))
pub proof fn lemma_laguerre_ladder_difference(g: real, y: real, a0: real, a1: real, b0: real, b1: real)
    ensures ({ let p0 = (1real - g) * y + g * a0; let q0 = (1real - g) * y + g * b0;
               p0 - q0 == g * (a0 - b0) && (-g * p0 + a0 + g * a1) - (-g * q0 + b0 + g * b1) == -g * (p0 - q0) + (a0 - b0) + g * (a1 - b1) })
{
    let p0 = (1real - g) * y + g * a0; let q0 = (1real - g) * y + g * b0;
    assert(g * (a0 - b0) == g * a0 - g * b0) by(nonlinear_arith);
    assert(-g * (p0 - q0) == -g * p0 - (-g * q0)) by(nonlinear_arith);
    assert(g * (a1 - b1) == g * a1 - g * b1) by(nonlinear_arith);
}
pub proof fn lemma_laguerre_stage_difference(g: real, n1: real, n2: real, p1: real, p2: real, c1: real, c2: real)
    ensures (-g * n1 + p1 + g * c1) - (-g * n2 + p2 + g * c2) == -g * (n1 - n2) + (p1 - p2) + g * (c1 - c2)
{
    assert(-g * (n1 - n2) == -g * n1 - (-g * n2)) by(nonlinear_arith);
    assert(g * (c1 - c2) == g * c1 - g * c2) by(nonlinear_arith);
}
pub proof fn lemma_laguerre_filter_common_tail(e1: Option<T>, e2: Option<T>, o1: LaguerreFilterOwn, o2: LaguerreFilterOwn, t: Seq<T>)
    requires o1.gamma == o2.gamma, o1.started, o2.started
    ensures ({ let s1 = run::<LaguerreFilter<Echo>>((e1, o1), t); let s2 = run::<LaguerreFilter<Echo>>((e2, o2), t);
               s1.1.gamma == o1.gamma && s2.1.gamma == o1.gamma && s1.1.started && s2.1.started
               && s1.1.l0.v() - s2.1.l0.v() == rpow(o1.gamma.v(), t.len()) * (o1.l0.v() - o2.l0.v()) })
    decreases t.len()
{
    let c = o1.gamma.v(); let d0 = o1.l0.v() - o2.l0.v();
    if t.len() > 0 {
        lemma_laguerre_filter_common_tail(e1, e2, o1, o2, t.drop_last());
        let s1 = run::<LaguerreFilter<Echo>>((e1, o1), t.drop_last()); let s2 = run::<LaguerreFilter<Echo>>((e2, o2), t.drop_last());
        lemma_laguerre_first_stage(s1.1, s2.1, t.last());
        let p = rpow(c, (t.len() - 1) as nat);
        assert(c * (p * d0) == (c * p) * d0) by(nonlinear_arith);
    } else {
        assert(1real * d0 == d0) by(nonlinear_arith);
    }
}
pub proof fn lemma_laguerre_rsi_ladder_difference(o1: LaguerreRSIOwn, o2: LaguerreRSIOwn, y: T)
    requires o1.gamma == o2.gamma, o1.rows >= 2, o2.rows >= 2
    ensures ({ let s1 = laguerrersi_own_step(o1, y); let s2 = laguerrersi_own_step(o2, y); let g = o1.gamma.v();
               s1.l0.v() - s2.l0.v() == g * (o1.l0.v() - o2.l0.v())
               && s1.l1.v() - s2.l1.v() == -g * (s1.l0.v() - s2.l0.v()) + (o1.l0.v() - o2.l0.v()) + g * (o1.l1.v() - o2.l1.v())
               && s1.l2.v() - s2.l2.v() == -g * (s1.l1.v() - s2.l1.v()) + (o1.l1.v() - o2.l1.v()) + g * (o1.l2.v() - o2.l2.v())
               && s1.l3.v() - s2.l3.v() == -g * (s1.l2.v() - s2.l2.v()) + (o1.l2.v() - o2.l2.v()) + g * (o1.l3.v() - o2.l3.v()) })
{
    let g = o1.gamma.v(); let s1 = laguerrersi_own_step(o1, y); let s2 = laguerrersi_own_step(o2, y);
    lemma_laguerre_ladder_difference(g, y.v(), o1.l0.v(), o1.l1.v(), o2.l0.v(), o2.l1.v());
    lemma_laguerre_stage_difference(g, s1.l1.v(), s2.l1.v(), o1.l1.v(), o2.l1.v(), o1.l2.v(), o2.l2.v());
    lemma_laguerre_stage_difference(g, s1.l2.v(), s2.l2.v(), o1.l2.v(), o2.l2.v(), o1.l3.v(), o2.l3.v());
}
// ---- Fisher recursion: with identical smoothed inputs the distance of two runs halves at every step
pub open spec fn fish_run(p: real, sms: Seq<real>) -> real decreases sms.len() { if sms.len() == 0 { p } else { eft_fish(sms.last(), fish_run(p, sms.drop_last())) } }
pub proof fn lemma_fisher_common_tail(p1: real, p2: real, sms: Seq<real>)
    ensures fish_run(p1, sms) - fish_run(p2, sms) == rpow(5real / 10real, sms.len()) * (p1 - p2)
    decreases sms.len()
{
    if sms.len() > 0 {
        lemma_fisher_common_tail(p1, p2, sms.drop_last());
        lemma_fisher_contracts(sms.last(), fish_run(p1, sms.drop_last()), fish_run(p2, sms.drop_last()));
        let p = rpow(5real / 10real, (sms.len() - 1) as nat);
        assert((5real / 10real) * (p * (p1 - p2)) == ((5real / 10real) * p) * (p1 - p2)) by(nonlinear_arith);
    } else {
        assert(1real * (p1 - p2) == p1 - p2) by(nonlinear_arith);
    }
}
// ---- TrendFlex / ReFlex smoother: same input and same previous input, so the difference of the filtered values is homogeneous
pub proof fn lemma_flex_filt_difference(q1: Seq<T>, q2: Seq<T>, x1: T, y: T, n: nat)
    requires q1.len() == q2.len(), q1.len() >= 2
    ensures flex_filt(q1, x1, y, n) - flex_filt(q2, x1, y, n)
        == flex_b1(n) * (q1[q1.len() - 1].v() - q2[q2.len() - 1].v()) + flex_c3(n) * (q1[q1.len() - 2].v() - q2[q2.len() - 2].v())
{
    lemma_lin2(flex_b1(n), flex_c3(n), q1[q1.len() - 1].v(), q1[q1.len() - 2].v(), q2[q2.len() - 1].v(), q2[q2.len() - 2].v());
}
// ---- CyberCycle: with a common input window the forcing terms cancel and the outputs differ by the homogeneous two-pole recursion with
// the double pole 1 - alpha in (0, 1); RoofingFilter's high-pass section likewise with |1 - alpha| < 1
pub proof fn lemma_cyber_cycle_difference(o1: CyberCycleOwn, o2: CyberCycleOwn, y: T)
    requires o1.n == o2.n, o1.alpha == o2.alpha, o1.vals == o2.vals, o1.outs.len() == o2.outs.len(), o1.outs.len() == o1.vals.len(), o1.vals.len() == o1.n, o1.n >= 3
    ensures ({ let s1 = cc_step(o1, y); let s2 = cc_step(o2, y); let k = o1.outs.len() as int; let a = o1.alpha.v();
               s1.vals == s2.vals && s1.outs.len() == k && s2.outs.len() == k
               && s1.outs[k - 1].v() - s2.outs[k - 1].v()
                  == (2real * (1real - a)) * (o1.outs[k - 1].v() - o2.outs[k - 1].v()) + (-r_powi(1real - a, 2)) * (o1.outs[k - 2].v() - o2.outs[k - 2].v()) })
{
    let a = o1.alpha.v(); let k = o1.outs.len() as int;
    let p1 = o1.outs.drop_first(); let p2 = o2.outs.drop_first();
    assert(p1[k - 2] == o1.outs[k - 1] && p1[k - 3] == o1.outs[k - 2] && p2[k - 2] == o2.outs[k - 1] && p2[k - 3] == o2.outs[k - 2]);
    let p = r_powi(1real - a, 2);
    lemma_lin2(2real * (1real - a), -p, o1.outs[k - 1].v(), o1.outs[k - 2].v(), o2.outs[k - 1].v(), o2.outs[k - 2].v());
    assert((-p) * o1.outs[k - 2].v() == -(p * o1.outs[k - 2].v())) by(nonlinear_arith);
    assert((-p) * o2.outs[k - 2].v() == -(p * o2.outs[k - 2].v())) by(nonlinear_arith);
    let v1 = wpush(o1.vals, y, o1.n);
    assert(v1.len() == o1.n);
    assert(cc_step(o1, y).outs.len() == k && cc_step(o2, y).outs.len() == k);
    assert(cc_step(o1, y).outs[k - 1] == cc_step(o1, y).outs.last());
}
pub proof fn lemma_roofing_hp_difference(o1: RoofingFilterOwn, o2: RoofingFilterOwn, y: T)
    requires o1.alpha == o2.alpha, o1.x1 == o2.x1, o1.x2 == o2.x2
    ensures roof_hp(o1, y) - roof_hp(o2, y) == (2real * (1real - o1.alpha.v())) * (o1.h1.v() - o2.h1.v()) + (-r_powi(1real - o1.alpha.v(), 2)) * (o1.h2.v() - o2.h2.v())
{
    let a = o1.alpha.v(); let p = r_powi(1real - a, 2);
    lemma_lin2(2real * (1real - a), -p, o1.h1.v(), o1.h2.v(), o2.h1.v(), o2.h2.v());
    assert((-p) * o1.h2.v() == -(p * o1.h2.v())) by(nonlinear_arith);
    assert((-p) * o2.h2.v() == -(p * o2.h2.v())) by(nonlinear_arith);
}
// the homogeneous recursion d'' = 2 r d' - r^2 d (double pole r) written with e = d' - r d:  e' = r e  - so e decays by |r| per step
pub proof fn lemma_double_pole(r: real, d0: real, d1: real)
    ensures ({ let d2 = (2real * r) * d1 + (-r_powi(r, 2)) * d0; d2 - r * d1 == r * (d1 - r * d0) })
{
    ax_powi2(r);
    assert((2real * r) * d1 + (-(r * r)) * d0 - r * d1 == r * (d1 - r * d0)) by(nonlinear_arith);
}
