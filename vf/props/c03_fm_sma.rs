// C03 for this view: two histories that agree on their last K values give the same output
use crate::props::c00_window::*;
use crate::props::c03_0_suffix::*;
use crate::props::c02_h_sma::*;
pub proof fn lemma_finite_memory_sma(h1: Seq<T>, h2: Seq<T>, n: nat)
    requires n >= 1, h1.len() >= n, h2.len() >= n, suffix(h1, n) == suffix(h2, n)
    ensures Sma::<Echo>::out(run::<Sma<Echo>>((None::<T>, SmaOwn { n: n, w: Seq::<T>::empty() }), h1)) == Sma::<Echo>::out(run::<Sma<Echo>>((None::<T>, SmaOwn { n: n, w: Seq::<T>::empty() }), h2))
{
    lemma_run_sma(h1, n); lemma_run_sma(h2, n);
    lemma_win_suffix(h1, h2, n, n); 
}
