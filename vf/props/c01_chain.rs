// C01 (chaining): for every unary wrapper W and an ARBITRARY inner view type V (only its trait contract is known):
//  - the inner view is stepped exactly once with the raw input,
//  - if it then reports y, the wrapper's own state moves exactly like the own state of a stand-alone W<Echo> fed y,
//  - if it reports nothing, the own state does not move,
//  - the wrapper's output is the output of W<Echo> on the same own state.
// Because V is a type parameter, this covers every inner view of the catalogue and, by induction over the type, every tree.

pub proof fn lemma_chain_alma<V: View>(vs: V::S, e: Option<T>, o: AlmaOwn, x: T)
    ensures Alma::<V>::step((vs, o), x).0 == V::step(vs, x),
        V::out(V::step(vs, x)).is_none() ==> Alma::<V>::step((vs, o), x).1 == o,
        V::out(V::step(vs, x)).is_some() ==> Alma::<V>::step((vs, o), x).1 == Alma::<Echo>::step((e, o), V::out(V::step(vs, x)).unwrap()).1,
        Alma::<V>::out((vs, o)) == Alma::<Echo>::out((e, o)),
{}

pub proof fn lemma_chain_binary_entropy<V: View>(vs: V::S, e: Option<T>, o: BinaryEntropyOwn, x: T)
    ensures BinaryEntropy::<V>::step((vs, o), x).0 == V::step(vs, x),
        V::out(V::step(vs, x)).is_none() ==> BinaryEntropy::<V>::step((vs, o), x).1 == o,
        V::out(V::step(vs, x)).is_some() ==> BinaryEntropy::<V>::step((vs, o), x).1 == BinaryEntropy::<Echo>::step((e, o), V::out(V::step(vs, x)).unwrap()).1,
        BinaryEntropy::<V>::out((vs, o)) == BinaryEntropy::<Echo>::out((e, o)),
{}

pub proof fn lemma_chain_center_of_gravity<V: View>(vs: V::S, e: Option<T>, o: CenterOfGravityOwn, x: T)
    ensures CenterOfGravity::<V>::step((vs, o), x).0 == V::step(vs, x),
        V::out(V::step(vs, x)).is_none() ==> CenterOfGravity::<V>::step((vs, o), x).1 == o,
        V::out(V::step(vs, x)).is_some() ==> CenterOfGravity::<V>::step((vs, o), x).1 == CenterOfGravity::<Echo>::step((e, o), V::out(V::step(vs, x)).unwrap()).1,
        CenterOfGravity::<V>::out((vs, o)) == CenterOfGravity::<Echo>::out((e, o)),
{}

pub proof fn lemma_chain_correlation_trend_indicator<V: View>(vs: V::S, e: Option<T>, o: CorrelationTrendIndicatorOwn, x: T)
    ensures CorrelationTrendIndicator::<V>::step((vs, o), x).0 == V::step(vs, x),
        V::out(V::step(vs, x)).is_none() ==> CorrelationTrendIndicator::<V>::step((vs, o), x).1 == o,
        V::out(V::step(vs, x)).is_some() ==> CorrelationTrendIndicator::<V>::step((vs, o), x).1 == CorrelationTrendIndicator::<Echo>::step((e, o), V::out(V::step(vs, x)).unwrap()).1,
        CorrelationTrendIndicator::<V>::out((vs, o)) == CorrelationTrendIndicator::<Echo>::out((e, o)),
{}

pub proof fn lemma_chain_cumulative<V: View>(vs: V::S, e: Option<T>, o: CumulativeOwn, x: T)
    ensures Cumulative::<V>::step((vs, o), x).0 == V::step(vs, x),
        V::out(V::step(vs, x)).is_none() ==> Cumulative::<V>::step((vs, o), x).1 == o,
        V::out(V::step(vs, x)).is_some() ==> Cumulative::<V>::step((vs, o), x).1 == Cumulative::<Echo>::step((e, o), V::out(V::step(vs, x)).unwrap()).1,
        Cumulative::<V>::out((vs, o)) == Cumulative::<Echo>::out((e, o)),
{}

pub proof fn lemma_chain_cyber_cycle<V: View>(vs: V::S, e: Option<T>, o: CyberCycleOwn, x: T)
    ensures CyberCycle::<V>::step((vs, o), x).0 == V::step(vs, x),
        V::out(V::step(vs, x)).is_none() ==> CyberCycle::<V>::step((vs, o), x).1 == o,
        V::out(V::step(vs, x)).is_some() ==> CyberCycle::<V>::step((vs, o), x).1 == CyberCycle::<Echo>::step((e, o), V::out(V::step(vs, x)).unwrap()).1,
        CyberCycle::<V>::out((vs, o)) == CyberCycle::<Echo>::out((e, o)),
{}

pub proof fn lemma_chain_drawdown<V: View>(vs: V::S, e: Option<T>, o: DrawdownOwn, x: T)
    ensures Drawdown::<V>::step((vs, o), x).0 == V::step(vs, x),
        V::out(V::step(vs, x)).is_none() ==> Drawdown::<V>::step((vs, o), x).1 == o,
        V::out(V::step(vs, x)).is_some() ==> Drawdown::<V>::step((vs, o), x).1 == Drawdown::<Echo>::step((e, o), V::out(V::step(vs, x)).unwrap()).1,
        Drawdown::<V>::out((vs, o)) == Drawdown::<Echo>::out((e, o)),
{}

pub proof fn lemma_chain_ehlers_fisher_transform<V: View, M: View>(vs: V::S, e: Option<T>, o: EhlersFisherTransformOwn<M>, x: T)
    ensures EhlersFisherTransform::<V, M>::step((vs, o), x).0 == V::step(vs, x),
        V::out(V::step(vs, x)).is_none() ==> EhlersFisherTransform::<V, M>::step((vs, o), x).1 == o,
        V::out(V::step(vs, x)).is_some() ==> EhlersFisherTransform::<V, M>::step((vs, o), x).1 == EhlersFisherTransform::<Echo, M>::step((e, o), V::out(V::step(vs, x)).unwrap()).1,
        EhlersFisherTransform::<V, M>::out((vs, o)) == EhlersFisherTransform::<Echo, M>::out((e, o)),
{}

pub proof fn lemma_chain_ema<V: View>(vs: V::S, e: Option<T>, o: EmaOwn, x: T)
    ensures Ema::<V>::step((vs, o), x).0 == V::step(vs, x),
        V::out(V::step(vs, x)).is_none() ==> Ema::<V>::step((vs, o), x).1 == o,
        V::out(V::step(vs, x)).is_some() ==> Ema::<V>::step((vs, o), x).1 == Ema::<Echo>::step((e, o), V::out(V::step(vs, x)).unwrap()).1,
        Ema::<V>::out((vs, o)) == Ema::<Echo>::out((e, o)),
{}

pub proof fn lemma_chain_gte<V: View>(vs: V::S, e: Option<T>, o: GTEOwn, x: T)
    ensures GTE::<V>::step((vs, o), x).0 == V::step(vs, x),
        V::out(V::step(vs, x)).is_none() ==> GTE::<V>::step((vs, o), x).1 == o,
        V::out(V::step(vs, x)).is_some() ==> GTE::<V>::step((vs, o), x).1 == GTE::<Echo>::step((e, o), V::out(V::step(vs, x)).unwrap()).1,
        GTE::<V>::out((vs, o)) == GTE::<Echo>::out((e, o)),
{}

pub proof fn lemma_chain_hl_normalizer<V: View>(vs: V::S, e: Option<T>, o: HLNormalizerOwn, x: T)
    ensures HLNormalizer::<V>::step((vs, o), x).0 == V::step(vs, x),
        V::out(V::step(vs, x)).is_none() ==> HLNormalizer::<V>::step((vs, o), x).1 == o,
        V::out(V::step(vs, x)).is_some() ==> HLNormalizer::<V>::step((vs, o), x).1 == HLNormalizer::<Echo>::step((e, o), V::out(V::step(vs, x)).unwrap()).1,
        HLNormalizer::<V>::out((vs, o)) == HLNormalizer::<Echo>::out((e, o)),
{}

pub proof fn lemma_chain_laguerre_filter<V: View>(vs: V::S, e: Option<T>, o: LaguerreFilterOwn, x: T)
    ensures LaguerreFilter::<V>::step((vs, o), x).0 == V::step(vs, x),
        V::out(V::step(vs, x)).is_none() ==> LaguerreFilter::<V>::step((vs, o), x).1 == o,
        V::out(V::step(vs, x)).is_some() ==> LaguerreFilter::<V>::step((vs, o), x).1 == LaguerreFilter::<Echo>::step((e, o), V::out(V::step(vs, x)).unwrap()).1,
        LaguerreFilter::<V>::out((vs, o)) == LaguerreFilter::<Echo>::out((e, o)),
{}

pub proof fn lemma_chain_laguerrersi<V: View>(vs: V::S, e: Option<T>, o: LaguerreRSIOwn, x: T)
    ensures LaguerreRSI::<V>::step((vs, o), x).0 == V::step(vs, x),
        V::out(V::step(vs, x)).is_none() ==> LaguerreRSI::<V>::step((vs, o), x).1 == o,
        V::out(V::step(vs, x)).is_some() ==> LaguerreRSI::<V>::step((vs, o), x).1 == LaguerreRSI::<Echo>::step((e, o), V::out(V::step(vs, x)).unwrap()).1,
        LaguerreRSI::<V>::out((vs, o)) == LaguerreRSI::<Echo>::out((e, o)),
{}

pub proof fn lemma_chain_ln_return<V: View>(vs: V::S, e: Option<T>, o: LnReturnOwn, x: T)
    ensures LnReturn::<V>::step((vs, o), x).0 == V::step(vs, x),
        V::out(V::step(vs, x)).is_none() ==> LnReturn::<V>::step((vs, o), x).1 == o,
        V::out(V::step(vs, x)).is_some() ==> LnReturn::<V>::step((vs, o), x).1 == LnReturn::<Echo>::step((e, o), V::out(V::step(vs, x)).unwrap()).1,
        LnReturn::<V>::out((vs, o)) == LnReturn::<Echo>::out((e, o)),
{}

pub proof fn lemma_chain_lte<V: View>(vs: V::S, e: Option<T>, o: LTEOwn, x: T)
    ensures LTE::<V>::step((vs, o), x).0 == V::step(vs, x),
        V::out(V::step(vs, x)).is_none() ==> LTE::<V>::step((vs, o), x).1 == o,
        V::out(V::step(vs, x)).is_some() ==> LTE::<V>::step((vs, o), x).1 == LTE::<Echo>::step((e, o), V::out(V::step(vs, x)).unwrap()).1,
        LTE::<V>::out((vs, o)) == LTE::<Echo>::out((e, o)),
{}

pub proof fn lemma_chain_max<V: View>(vs: V::S, e: Option<T>, o: MaxOwn, x: T)
    ensures Max::<V>::step((vs, o), x).0 == V::step(vs, x),
        V::out(V::step(vs, x)).is_none() ==> Max::<V>::step((vs, o), x).1 == o,
        V::out(V::step(vs, x)).is_some() ==> Max::<V>::step((vs, o), x).1 == Max::<Echo>::step((e, o), V::out(V::step(vs, x)).unwrap()).1,
        Max::<V>::out((vs, o)) == Max::<Echo>::out((e, o)),
{}

pub proof fn lemma_chain_min<V: View>(vs: V::S, e: Option<T>, o: MinOwn, x: T)
    ensures Min::<V>::step((vs, o), x).0 == V::step(vs, x),
        V::out(V::step(vs, x)).is_none() ==> Min::<V>::step((vs, o), x).1 == o,
        V::out(V::step(vs, x)).is_some() ==> Min::<V>::step((vs, o), x).1 == Min::<Echo>::step((e, o), V::out(V::step(vs, x)).unwrap()).1,
        Min::<V>::out((vs, o)) == Min::<Echo>::out((e, o)),
{}

pub proof fn lemma_chain_myrsi<V: View>(vs: V::S, e: Option<T>, o: MyRSIOwn, x: T)
    ensures MyRSI::<V>::step((vs, o), x).0 == V::step(vs, x),
        V::out(V::step(vs, x)).is_none() ==> MyRSI::<V>::step((vs, o), x).1 == o,
        V::out(V::step(vs, x)).is_some() ==> MyRSI::<V>::step((vs, o), x).1 == MyRSI::<Echo>::step((e, o), V::out(V::step(vs, x)).unwrap()).1,
        MyRSI::<V>::out((vs, o)) == MyRSI::<Echo>::out((e, o)),
{}

pub proof fn lemma_chain_noise_elimination_technology<V: View>(vs: V::S, e: Option<T>, o: NoiseEliminationTechnologyOwn, x: T)
    ensures NoiseEliminationTechnology::<V>::step((vs, o), x).0 == V::step(vs, x),
        V::out(V::step(vs, x)).is_none() ==> NoiseEliminationTechnology::<V>::step((vs, o), x).1 == o,
        V::out(V::step(vs, x)).is_some() ==> NoiseEliminationTechnology::<V>::step((vs, o), x).1 == NoiseEliminationTechnology::<Echo>::step((e, o), V::out(V::step(vs, x)).unwrap()).1,
        NoiseEliminationTechnology::<V>::out((vs, o)) == NoiseEliminationTechnology::<Echo>::out((e, o)),
{}

pub proof fn lemma_chain_polarized_fractal_efficiency<V: View, M: View>(vs: V::S, e: Option<T>, o: PolarizedFractalEfficiencyOwn<M>, x: T)
    ensures PolarizedFractalEfficiency::<V, M>::step((vs, o), x).0 == V::step(vs, x),
        V::out(V::step(vs, x)).is_none() ==> PolarizedFractalEfficiency::<V, M>::step((vs, o), x).1 == o,
        V::out(V::step(vs, x)).is_some() ==> PolarizedFractalEfficiency::<V, M>::step((vs, o), x).1 == PolarizedFractalEfficiency::<Echo, M>::step((e, o), V::out(V::step(vs, x)).unwrap()).1,
        PolarizedFractalEfficiency::<V, M>::out((vs, o)) == PolarizedFractalEfficiency::<Echo, M>::out((e, o)),
{}

pub proof fn lemma_chain_re_flex<V: View>(vs: V::S, e: Option<T>, o: ReFlexOwn, x: T)
    ensures ReFlex::<V>::step((vs, o), x).0 == V::step(vs, x),
        V::out(V::step(vs, x)).is_none() ==> ReFlex::<V>::step((vs, o), x).1 == o,
        V::out(V::step(vs, x)).is_some() ==> ReFlex::<V>::step((vs, o), x).1 == ReFlex::<Echo>::step((e, o), V::out(V::step(vs, x)).unwrap()).1,
        ReFlex::<V>::out((vs, o)) == ReFlex::<Echo>::out((e, o)),
{}

pub proof fn lemma_chain_roc<V: View>(vs: V::S, e: Option<T>, o: RocOwn, x: T)
    ensures Roc::<V>::step((vs, o), x).0 == V::step(vs, x),
        V::out(V::step(vs, x)).is_none() ==> Roc::<V>::step((vs, o), x).1 == o,
        V::out(V::step(vs, x)).is_some() ==> Roc::<V>::step((vs, o), x).1 == Roc::<Echo>::step((e, o), V::out(V::step(vs, x)).unwrap()).1,
        Roc::<V>::out((vs, o)) == Roc::<Echo>::out((e, o)),
{}

pub proof fn lemma_chain_roofing_filter<V: View>(vs: V::S, e: Option<T>, o: RoofingFilterOwn, x: T)
    ensures RoofingFilter::<V>::step((vs, o), x).0 == V::step(vs, x),
        V::out(V::step(vs, x)).is_none() ==> RoofingFilter::<V>::step((vs, o), x).1 == o,
        V::out(V::step(vs, x)).is_some() ==> RoofingFilter::<V>::step((vs, o), x).1 == RoofingFilter::<Echo>::step((e, o), V::out(V::step(vs, x)).unwrap()).1,
        RoofingFilter::<V>::out((vs, o)) == RoofingFilter::<Echo>::out((e, o)),
{}

pub proof fn lemma_chain_rsi<V: View>(vs: V::S, e: Option<T>, o: RsiOwn, x: T)
    ensures Rsi::<V>::step((vs, o), x).0 == V::step(vs, x),
        V::out(V::step(vs, x)).is_none() ==> Rsi::<V>::step((vs, o), x).1 == o,
        V::out(V::step(vs, x)).is_some() ==> Rsi::<V>::step((vs, o), x).1 == Rsi::<Echo>::step((e, o), V::out(V::step(vs, x)).unwrap()).1,
        Rsi::<V>::out((vs, o)) == Rsi::<Echo>::out((e, o)),
{}

pub proof fn lemma_chain_sma<V: View>(vs: V::S, e: Option<T>, o: SmaOwn, x: T)
    ensures Sma::<V>::step((vs, o), x).0 == V::step(vs, x),
        V::out(V::step(vs, x)).is_none() ==> Sma::<V>::step((vs, o), x).1 == o,
        V::out(V::step(vs, x)).is_some() ==> Sma::<V>::step((vs, o), x).1 == Sma::<Echo>::step((e, o), V::out(V::step(vs, x)).unwrap()).1,
        Sma::<V>::out((vs, o)) == Sma::<Echo>::out((e, o)),
{}

pub proof fn lemma_chain_super_smoother<V: View>(vs: V::S, e: Option<T>, o: SuperSmootherOwn, x: T)
    ensures SuperSmoother::<V>::step((vs, o), x).0 == V::step(vs, x),
        V::out(V::step(vs, x)).is_none() ==> SuperSmoother::<V>::step((vs, o), x).1 == o,
        V::out(V::step(vs, x)).is_some() ==> SuperSmoother::<V>::step((vs, o), x).1 == SuperSmoother::<Echo>::step((e, o), V::out(V::step(vs, x)).unwrap()).1,
        SuperSmoother::<V>::out((vs, o)) == SuperSmoother::<Echo>::out((e, o)),
{}

pub proof fn lemma_chain_trend_flex<V: View>(vs: V::S, e: Option<T>, o: TrendFlexOwn, x: T)
    ensures TrendFlex::<V>::step((vs, o), x).0 == V::step(vs, x),
        V::out(V::step(vs, x)).is_none() ==> TrendFlex::<V>::step((vs, o), x).1 == o,
        V::out(V::step(vs, x)).is_some() ==> TrendFlex::<V>::step((vs, o), x).1 == TrendFlex::<Echo>::step((e, o), V::out(V::step(vs, x)).unwrap()).1,
        TrendFlex::<V>::out((vs, o)) == TrendFlex::<Echo>::out((e, o)),
{}

pub proof fn lemma_chain_vst<V: View>(vs: V::S, e: Option<T>, o: VstOwn, x: T)
    ensures Vst::<V>::step((vs, o), x).0 == V::step(vs, x),
        V::out(V::step(vs, x)).is_none() ==> Vst::<V>::step((vs, o), x).1 == o,
        V::out(V::step(vs, x)).is_some() ==> Vst::<V>::step((vs, o), x).1 == Vst::<Echo>::step((e, o), V::out(V::step(vs, x)).unwrap()).1,
        Vst::<V>::out((vs, o)) == Vst::<Echo>::out((e, o)),
{}

pub proof fn lemma_chain_vsct<V: View>(vs: V::S, e: Option<T>, o: VsctOwn, x: T)
    ensures Vsct::<V>::step((vs, o), x).0 == V::step(vs, x),
        V::out(V::step(vs, x)).is_none() ==> Vsct::<V>::step((vs, o), x).1 == o,
        V::out(V::step(vs, x)).is_some() ==> Vsct::<V>::step((vs, o), x).1 == Vsct::<Echo>::step((e, o), V::out(V::step(vs, x)).unwrap()).1,
        Vsct::<V>::out((vs, o)) == Vsct::<Echo>::out((e, o)),
{}

pub proof fn lemma_chain_welford_online<V: View>(vs: V::S, e: Option<T>, o: WelfordOnlineOwn, x: T)
    ensures WelfordOnline::<V>::step((vs, o), x).0 == V::step(vs, x),
        V::out(V::step(vs, x)).is_none() ==> WelfordOnline::<V>::step((vs, o), x).1 == o,
        V::out(V::step(vs, x)).is_some() ==> WelfordOnline::<V>::step((vs, o), x).1 == WelfordOnline::<Echo>::step((e, o), V::out(V::step(vs, x)).unwrap()).1,
        WelfordOnline::<V>::out((vs, o)) == WelfordOnline::<Echo>::out((e, o)),
{}

pub proof fn lemma_chain_welford_rolling<V: View>(vs: V::S, e: Option<T>, o: WelfordRollingOwn, x: T)
    ensures WelfordRolling::<V>::step((vs, o), x).0 == V::step(vs, x),
        V::out(V::step(vs, x)).is_none() ==> WelfordRolling::<V>::step((vs, o), x).1 == o,
        V::out(V::step(vs, x)).is_some() ==> WelfordRolling::<V>::step((vs, o), x).1 == WelfordRolling::<Echo>::step((e, o), V::out(V::step(vs, x)).unwrap()).1,
        WelfordRolling::<V>::out((vs, o)) == WelfordRolling::<Echo>::out((e, o)),
{}

// combinators: both children are stepped with the raw input; the node reports a value iff both children do
pub proof fn lemma_chain_add<A: View, B: View>(sa: A::S, sb: B::S, x: T)
    ensures Add::<A, B>::step((sa, sb), x) == (A::step(sa, x), B::step(sb, x)),
        Add::<A, B>::out((sa, sb)).is_some() == (A::out(sa).is_some() && B::out(sb).is_some()),
{}
pub proof fn lemma_chain_subtract<A: View, B: View>(sa: A::S, sb: B::S, x: T)
    ensures Subtract::<A, B>::step((sa, sb), x) == (A::step(sa, x), B::step(sb, x)),
        Subtract::<A, B>::out((sa, sb)).is_some() == (A::out(sa).is_some() && B::out(sb).is_some()),
{}
pub proof fn lemma_chain_multiply<A: View, B: View>(sa: A::S, sb: B::S, x: T)
    ensures Multiply::<A, B>::step((sa, sb), x) == (A::step(sa, x), B::step(sb, x)),
        Multiply::<A, B>::out((sa, sb)).is_some() == (A::out(sa).is_some() && B::out(sb).is_some()),
{}
pub proof fn lemma_chain_divide<A: View, B: View>(sa: A::S, sb: B::S, x: T)
    ensures Divide::<A, B>::step((sa, sb), x) == (A::step(sa, x), B::step(sb, x)),
        Divide::<A, B>::out((sa, sb)).is_some() == (A::out(sa).is_some() && B::out(sb).is_some()),
{}
pub proof fn lemma_chain_tanh<V: View>(vs: V::S, x: T)
    ensures Tanh::<V>::step(vs, x) == V::step(vs, x), Tanh::<V>::out(vs).is_some() == V::out(vs).is_some(),
{}
// whole histories: for every wrapper W and every inner view type V, the inner state of the chain W<V> run on raw inputs h is exactly V run on h
// (every raw input reaches the inner view exactly once per update, in order)
pub proof fn lemma_chain_history_alma<V: View>(vs: V::S, o: AlmaOwn, h: Seq<T>)
    ensures run::<Alma<V>>((vs, o), h).0 == run::<V>(vs, h)
    decreases h.len()
{ if h.len() > 0 { lemma_chain_history_alma::<V>(vs, o, h.drop_last()); } }
pub proof fn lemma_chain_history_binary_entropy<V: View>(vs: V::S, o: BinaryEntropyOwn, h: Seq<T>)
    ensures run::<BinaryEntropy<V>>((vs, o), h).0 == run::<V>(vs, h)
    decreases h.len()
{ if h.len() > 0 { lemma_chain_history_binary_entropy::<V>(vs, o, h.drop_last()); } }
pub proof fn lemma_chain_history_center_of_gravity<V: View>(vs: V::S, o: CenterOfGravityOwn, h: Seq<T>)
    ensures run::<CenterOfGravity<V>>((vs, o), h).0 == run::<V>(vs, h)
    decreases h.len()
{ if h.len() > 0 { lemma_chain_history_center_of_gravity::<V>(vs, o, h.drop_last()); } }
pub proof fn lemma_chain_history_correlation_trend_indicator<V: View>(vs: V::S, o: CorrelationTrendIndicatorOwn, h: Seq<T>)
    ensures run::<CorrelationTrendIndicator<V>>((vs, o), h).0 == run::<V>(vs, h)
    decreases h.len()
{ if h.len() > 0 { lemma_chain_history_correlation_trend_indicator::<V>(vs, o, h.drop_last()); } }
pub proof fn lemma_chain_history_cumulative<V: View>(vs: V::S, o: CumulativeOwn, h: Seq<T>)
    ensures run::<Cumulative<V>>((vs, o), h).0 == run::<V>(vs, h)
    decreases h.len()
{ if h.len() > 0 { lemma_chain_history_cumulative::<V>(vs, o, h.drop_last()); } }
pub proof fn lemma_chain_history_cyber_cycle<V: View>(vs: V::S, o: CyberCycleOwn, h: Seq<T>)
    ensures run::<CyberCycle<V>>((vs, o), h).0 == run::<V>(vs, h)
    decreases h.len()
{ if h.len() > 0 { lemma_chain_history_cyber_cycle::<V>(vs, o, h.drop_last()); } }
pub proof fn lemma_chain_history_drawdown<V: View>(vs: V::S, o: DrawdownOwn, h: Seq<T>)
    ensures run::<Drawdown<V>>((vs, o), h).0 == run::<V>(vs, h)
    decreases h.len()
{ if h.len() > 0 { lemma_chain_history_drawdown::<V>(vs, o, h.drop_last()); } }
pub proof fn lemma_chain_history_ehlers_fisher_transform<V: View, M: View>(vs: V::S, o: EhlersFisherTransformOwn<M>, h: Seq<T>)
    ensures run::<EhlersFisherTransform<V, M>>((vs, o), h).0 == run::<V>(vs, h)
    decreases h.len()
{ if h.len() > 0 { lemma_chain_history_ehlers_fisher_transform::<V, M>(vs, o, h.drop_last()); } }
pub proof fn lemma_chain_history_ema<V: View>(vs: V::S, o: EmaOwn, h: Seq<T>)
    ensures run::<Ema<V>>((vs, o), h).0 == run::<V>(vs, h)
    decreases h.len()
{ if h.len() > 0 { lemma_chain_history_ema::<V>(vs, o, h.drop_last()); } }
pub proof fn lemma_chain_history_gte<V: View>(vs: V::S, o: GTEOwn, h: Seq<T>)
    ensures run::<GTE<V>>((vs, o), h).0 == run::<V>(vs, h)
    decreases h.len()
{ if h.len() > 0 { lemma_chain_history_gte::<V>(vs, o, h.drop_last()); } }
pub proof fn lemma_chain_history_hl_normalizer<V: View>(vs: V::S, o: HLNormalizerOwn, h: Seq<T>)
    ensures run::<HLNormalizer<V>>((vs, o), h).0 == run::<V>(vs, h)
    decreases h.len()
{ if h.len() > 0 { lemma_chain_history_hl_normalizer::<V>(vs, o, h.drop_last()); } }
pub proof fn lemma_chain_history_laguerre_filter<V: View>(vs: V::S, o: LaguerreFilterOwn, h: Seq<T>)
    ensures run::<LaguerreFilter<V>>((vs, o), h).0 == run::<V>(vs, h)
    decreases h.len()
{ if h.len() > 0 { lemma_chain_history_laguerre_filter::<V>(vs, o, h.drop_last()); } }
pub proof fn lemma_chain_history_laguerrersi<V: View>(vs: V::S, o: LaguerreRSIOwn, h: Seq<T>)
    ensures run::<LaguerreRSI<V>>((vs, o), h).0 == run::<V>(vs, h)
    decreases h.len()
{ if h.len() > 0 { lemma_chain_history_laguerrersi::<V>(vs, o, h.drop_last()); } }
pub proof fn lemma_chain_history_ln_return<V: View>(vs: V::S, o: LnReturnOwn, h: Seq<T>)
    ensures run::<LnReturn<V>>((vs, o), h).0 == run::<V>(vs, h)
    decreases h.len()
{ if h.len() > 0 { lemma_chain_history_ln_return::<V>(vs, o, h.drop_last()); } }
pub proof fn lemma_chain_history_lte<V: View>(vs: V::S, o: LTEOwn, h: Seq<T>)
    ensures run::<LTE<V>>((vs, o), h).0 == run::<V>(vs, h)
    decreases h.len()
{ if h.len() > 0 { lemma_chain_history_lte::<V>(vs, o, h.drop_last()); } }
pub proof fn lemma_chain_history_max<V: View>(vs: V::S, o: MaxOwn, h: Seq<T>)
    ensures run::<Max<V>>((vs, o), h).0 == run::<V>(vs, h)
    decreases h.len()
{ if h.len() > 0 { lemma_chain_history_max::<V>(vs, o, h.drop_last()); } }
pub proof fn lemma_chain_history_min<V: View>(vs: V::S, o: MinOwn, h: Seq<T>)
    ensures run::<Min<V>>((vs, o), h).0 == run::<V>(vs, h)
    decreases h.len()
{ if h.len() > 0 { lemma_chain_history_min::<V>(vs, o, h.drop_last()); } }
pub proof fn lemma_chain_history_myrsi<V: View>(vs: V::S, o: MyRSIOwn, h: Seq<T>)
    ensures run::<MyRSI<V>>((vs, o), h).0 == run::<V>(vs, h)
    decreases h.len()
{ if h.len() > 0 { lemma_chain_history_myrsi::<V>(vs, o, h.drop_last()); } }
pub proof fn lemma_chain_history_noise_elimination_technology<V: View>(vs: V::S, o: NoiseEliminationTechnologyOwn, h: Seq<T>)
    ensures run::<NoiseEliminationTechnology<V>>((vs, o), h).0 == run::<V>(vs, h)
    decreases h.len()
{ if h.len() > 0 { lemma_chain_history_noise_elimination_technology::<V>(vs, o, h.drop_last()); } }
pub proof fn lemma_chain_history_polarized_fractal_efficiency<V: View, M: View>(vs: V::S, o: PolarizedFractalEfficiencyOwn<M>, h: Seq<T>)
    ensures run::<PolarizedFractalEfficiency<V, M>>((vs, o), h).0 == run::<V>(vs, h)
    decreases h.len()
{ if h.len() > 0 { lemma_chain_history_polarized_fractal_efficiency::<V, M>(vs, o, h.drop_last()); } }
pub proof fn lemma_chain_history_re_flex<V: View>(vs: V::S, o: ReFlexOwn, h: Seq<T>)
    ensures run::<ReFlex<V>>((vs, o), h).0 == run::<V>(vs, h)
    decreases h.len()
{ if h.len() > 0 { lemma_chain_history_re_flex::<V>(vs, o, h.drop_last()); } }
pub proof fn lemma_chain_history_roc<V: View>(vs: V::S, o: RocOwn, h: Seq<T>)
    ensures run::<Roc<V>>((vs, o), h).0 == run::<V>(vs, h)
    decreases h.len()
{ if h.len() > 0 { lemma_chain_history_roc::<V>(vs, o, h.drop_last()); } }
pub proof fn lemma_chain_history_roofing_filter<V: View>(vs: V::S, o: RoofingFilterOwn, h: Seq<T>)
    ensures run::<RoofingFilter<V>>((vs, o), h).0 == run::<V>(vs, h)
    decreases h.len()
{ if h.len() > 0 { lemma_chain_history_roofing_filter::<V>(vs, o, h.drop_last()); } }
pub proof fn lemma_chain_history_rsi<V: View>(vs: V::S, o: RsiOwn, h: Seq<T>)
    ensures run::<Rsi<V>>((vs, o), h).0 == run::<V>(vs, h)
    decreases h.len()
{ if h.len() > 0 { lemma_chain_history_rsi::<V>(vs, o, h.drop_last()); } }
pub proof fn lemma_chain_history_sma<V: View>(vs: V::S, o: SmaOwn, h: Seq<T>)
    ensures run::<Sma<V>>((vs, o), h).0 == run::<V>(vs, h)
    decreases h.len()
{ if h.len() > 0 { lemma_chain_history_sma::<V>(vs, o, h.drop_last()); } }
pub proof fn lemma_chain_history_super_smoother<V: View>(vs: V::S, o: SuperSmootherOwn, h: Seq<T>)
    ensures run::<SuperSmoother<V>>((vs, o), h).0 == run::<V>(vs, h)
    decreases h.len()
{ if h.len() > 0 { lemma_chain_history_super_smoother::<V>(vs, o, h.drop_last()); } }
pub proof fn lemma_chain_history_trend_flex<V: View>(vs: V::S, o: TrendFlexOwn, h: Seq<T>)
    ensures run::<TrendFlex<V>>((vs, o), h).0 == run::<V>(vs, h)
    decreases h.len()
{ if h.len() > 0 { lemma_chain_history_trend_flex::<V>(vs, o, h.drop_last()); } }
pub proof fn lemma_chain_history_vst<V: View>(vs: V::S, o: VstOwn, h: Seq<T>)
    ensures run::<Vst<V>>((vs, o), h).0 == run::<V>(vs, h)
    decreases h.len()
{ if h.len() > 0 { lemma_chain_history_vst::<V>(vs, o, h.drop_last()); } }
pub proof fn lemma_chain_history_vsct<V: View>(vs: V::S, o: VsctOwn, h: Seq<T>)
    ensures run::<Vsct<V>>((vs, o), h).0 == run::<V>(vs, h)
    decreases h.len()
{ if h.len() > 0 { lemma_chain_history_vsct::<V>(vs, o, h.drop_last()); } }
pub proof fn lemma_chain_history_welford_online<V: View>(vs: V::S, o: WelfordOnlineOwn, h: Seq<T>)
    ensures run::<WelfordOnline<V>>((vs, o), h).0 == run::<V>(vs, h)
    decreases h.len()
{ if h.len() > 0 { lemma_chain_history_welford_online::<V>(vs, o, h.drop_last()); } }
pub proof fn lemma_chain_history_welford_rolling<V: View>(vs: V::S, o: WelfordRollingOwn, h: Seq<T>)
    ensures run::<WelfordRolling<V>>((vs, o), h).0 == run::<V>(vs, h)
    decreases h.len()
{ if h.len() > 0 { lemma_chain_history_welford_rolling::<V>(vs, o, h.drop_last()); } }
// binary combinators: both children see the whole raw history
pub proof fn lemma_chain_history_add<A: View, B: View>(sa: A::S, sb: B::S, h: Seq<T>)
    ensures run::<Add<A, B>>((sa, sb), h) == (run::<A>(sa, h), run::<B>(sb, h))
    decreases h.len()
{ if h.len() > 0 { lemma_chain_history_add::<A, B>(sa, sb, h.drop_last()); } }
pub proof fn lemma_chain_history_divide<A: View, B: View>(sa: A::S, sb: B::S, h: Seq<T>)
    ensures run::<Divide<A, B>>((sa, sb), h) == (run::<A>(sa, h), run::<B>(sb, h))
    decreases h.len()
{ if h.len() > 0 { lemma_chain_history_divide::<A, B>(sa, sb, h.drop_last()); } }
