// C02/C05/C06 at history level for this view (over Echo): abstract window == last N values; closed-form output
use crate::props::c00_window::*;
pub proof fn lemma_run_welford_online(h: Seq<T>, n: nat)
    requires n >= 1
    ensures ({ let s = run::<WelfordOnline<Echo>>((None::<T>, WelfordOnlineOwn { n: n, w: Seq::<T>::empty() }), h);
               s.0 == echo_of(h) && s.1 == WelfordOnlineOwn { n: n, w: win(h, n) } })
    decreases h.len()
{
    if h.len() > 0 { lemma_run_welford_online(h.drop_last(), n); lemma_win_step(h, n); }
    else { assert(win(h, n) =~= Seq::<T>::empty()); }
}
pub proof fn lemma_welford_online_closed_form(h: Seq<T>, n: nat)
    requires n >= 1
    ensures WelfordOnline::<Echo>::out(run::<WelfordOnline<Echo>>((None::<T>, WelfordOnlineOwn { n: n, w: Seq::<T>::empty() }), h))
        == (if win(h, n).len() + 1 < n { None::<T> } else if wo_variance(win(h, n)) <= 0real { Some(mk(0real)) } else { Some(mk(r_sqrt(wo_variance(win(h, n))))) })
{
    lemma_run_welford_online(h, n);
}

