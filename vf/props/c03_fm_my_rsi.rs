// C03 for this view: two histories that agree on their last K values give the same output
use crate::props::c00_window::*;
use crate::props::c03_0_suffix::*;
use crate::props::c05_h_my_rsi::*;
// MyRSI: K = N + 1, except while it is holding its previous output because the window is flat (G + L = 0)
pub proof fn lemma_finite_memory_my_rsi(h1: Seq<T>, h2: Seq<T>, n: nat)
    requires n >= 1, h1.len() >= n + 1, h2.len() >= n + 1, suffix(h1, n + 1) == suffix(h2, n + 1),
        gains(win(h1, n), pred_of(h1, n)) + losses(win(h1, n), pred_of(h1, n)) != 0real
    ensures MyRSI::<Echo>::out(run::<MyRSI<Echo>>((None::<T>, MyRSIOwn { n: n, w: Seq::<T>::empty(), pred: mk(0real), held: mk(0real) }), h1))
         == MyRSI::<Echo>::out(run::<MyRSI<Echo>>((None::<T>, MyRSIOwn { n: n, w: Seq::<T>::empty(), pred: mk(0real), held: mk(0real) }), h2))
{
    lemma_win_suffix(h1, h2, n, n + 1); lemma_pred_suffix(h1, h2, n);
    lemma_my_rsi_closed_form(h1, n); lemma_my_rsi_closed_form(h2, n);
}
