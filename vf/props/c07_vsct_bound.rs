// C07: |Vsct| <= (N-1)/sqrt(N).  The newest value of a sample of k values deviates from the sample mean by at most
// (k-1)/sqrt(k) sample standard deviations (Samuelson's inequality), and (k-1)/sqrt(k) increases with k <= N.
// Proved in exact arithmetic from the Welford window characterisation; the f64 effect on flat windows is the open finding C07/vsct.
use crate::props::c00_centered::*;
use crate::props::c00_window::*;

// n d^2 <= (n-1) * sum of squared deviations, d = deviation of the newest value from the mean
pub proof fn lemma_samuelson(w: Seq<T>, mean: real)
    requires w.len() >= 2, mean * (w.len() as real) == sum(w)
    ensures (w.len() as real) * ((w.last().v() - mean) * (w.last().v() - mean)) <= ((w.len() as real) - 1real) * cssq(w, mean)
{
    let u = w.drop_last(); let n = w.len() as real; let d = w.last().v() - mean;
    lemma_centered_sums(w, mean); lemma_cs_centered(u, mean);
    assert(n * mean == mean * n) by(nonlinear_arith);
    assert(csum(w, mean) == 0real);
    assert(csum(u, mean) == -d);
    assert(u.len() as real == n - 1real);
    let c = cssq(w, mean); let dd = d * d;
    assert(cssq(u, mean) == c - dd);
    assert((-d) * (-d) == dd) by(nonlinear_arith) requires dd == d * d;
    assert((c - dd) * (n - 1real) == (n - 1real) * c - (n - 1real) * dd) by(nonlinear_arith);
    assert(n * dd == dd + (n - 1real) * dd) by(nonlinear_arith);
}
// with the Welford characterisation (division-free) the squared deviations sum to m2
pub proof fn lemma_cssq_is_m2(w: Seq<T>, mean: real, m2: real)
    requires w.len() >= 1, wstats(w, w.len(), mean, m2)
    ensures cssq(w, mean) == m2
{
    lemma_centered_sums(w, mean);
    let n = w.len() as real; let s = sum(w); let q = sumsq(w); let c = cssq(w, mean);
    // c n = n q - 2 mean n s + n^2 mean^2 = n q - 2 s^2 + s^2 = m2 n
    assert(c * n == n * q - 2real * (mean * n) * s + (mean * n) * (mean * n)) by(nonlinear_arith) requires c == q - 2real * mean * s + n * (mean * mean);
    assert((c - m2) * n == 0real) by(nonlinear_arith) requires c * n == n * q - 2real * (mean * n) * s + (mean * n) * (mean * n), mean * n == s, m2 * n == n * q - s * s;
    lemma_mul_pos_zero(c - m2, n);
}
// the bound on Vsct's output, for any Welford window of k >= 2 values inside a window length N >= k, newest value last
pub proof fn lemma_vsct_bound(w: Seq<T>, n: nat)
    requires w.len() >= 2, n >= w.len(), wo_variance(w) > 0real
    ensures ({ let out = rdiv(w.last().v() - wo_mean(w), r_sqrt(wo_variance(w)));
               let b = rdiv((n as real) - 1real, r_sqrt(n as real));
               -b <= out <= b })
{
    let k = w.len() as real; let nn = n as real;
    let mean = wo_mean(w); let m2 = wo_m2(w); let var = wo_variance(w);
    lemma_rdiv_mul(sum(w), k); lemma_rdiv_mul(k * sumsq(w) - sum(w) * sum(w), k);
    assert(wstats(w, w.len(), mean, m2));
    lemma_samuelson(w, mean); lemma_cssq_is_m2(w, mean, m2);
    lemma_rdiv_mul(m2, k - 1real);
    assert((w.len() - 1) as real == k - 1real);
    assert(m2 > 0real) by(nonlinear_arith) requires var * (k - 1real) == m2, var > 0real, k >= 2real;
    ax_sqrt(var); lemma_sqrt_pos(var); ax_sqrt(nn); lemma_sqrt_pos(nn);
    let s = r_sqrt(var); let r = r_sqrt(nn); let d = w.last().v() - mean; let out = rdiv(d, s);
    lemma_rdiv_mul(d, s);
    lemma_vsct_core(k, nn, d, m2, s, r, out);
    lemma_rdiv_ge_k(nn - 1real, r, out);
    lemma_rdiv_mul(nn - 1real, r);
    let b = rdiv(nn - 1real, r);
    assert(-b <= out) by(nonlinear_arith) requires b * r == nn - 1real, -(nn - 1real) <= out * r, r > 0real;
}
use crate::props::c02_h_vsct::*;
// every value Vsct reports after any history lies within +-(N-1)/sqrt(N)
pub proof fn lemma_vsct_range(h: Seq<T>, n: nat)
    requires n >= 2
    ensures ({ let o = Vsct::<Echo>::out(run::<Vsct<Echo>>((None::<T>, VsctOwn { last: mk(0real), wo: (None::<T>, WelfordOnlineOwn { n: n, w: Seq::<T>::empty() }) }), h));
               let b = rdiv((n as real) - 1real, r_sqrt(n as real));
               o.is_some() ==> -b <= o.unwrap().v() <= b })
{
    lemma_run_vsct(h, n);
    let w = win(h, n);
    ax_sqrt(n as real); lemma_sqrt_pos(n as real);
    lemma_rdiv_sign((n as real) - 1real, r_sqrt(n as real));
    if h.len() > 0 { assert(w.last() == h.last()); }
    if w.len() >= 2 && wo_variance(w) > 0real {
        lemma_vsct_bound(w, n);
        lemma_sqrt_pos(wo_variance(w));
    }
}
