// C12 at whole-history level: Drawdown and LnReturn are unchanged by a x (a > 0) on positive histories; Ema, Alma and the linear
// filters scale with a (superposition with b = 0, c10_history)
use crate::props::c00_window::*;
use crate::props::c00_affine::*;
use crate::props::c12_scale_more::*;
use crate::props::c13_rolling::*;
use crate::props::c10_superposition::*;
use crate::props::c10_history::*;

pub proof fn lemma_affine_positive(h: Seq<T>, a: real)
    requires all_positive(h), a > 0real
    ensures all_positive(affine(h, a, 0real))
{
    assert forall|i: int| 0 <= i < h.len() implies (#[trigger] affine(h, a, 0real)[i]).v() > 0real by {
        let x = h[i].v();
        assert(a * x > 0real) by(nonlinear_arith) requires a > 0real, x > 0real;
    }
}
pub proof fn lemma_drawdown_history_scale(h: Seq<T>, a: real)
    requires all_positive(h), a > 0real
    ensures ({ let i = (None::<T>, DrawdownOwn { peak: mk(r_minv()), mdd: mk(0real) });
               let s = run::<Drawdown<Echo>>(i, h); let t = run::<Drawdown<Echo>>(i, affine(h, a, 0real));
               t.1.mdd == s.1.mdd && (h.len() > 0 ==> s.1.peak.v() > 0real && t.1.peak.v() == a * s.1.peak.v()) && (h.len() == 0 ==> s.1 == i.1 && t.1 == i.1)
               && Drawdown::<Echo>::out(t) == Drawdown::<Echo>::out(s) })
    decreases h.len()
{
    let i = (None::<T>, DrawdownOwn { peak: mk(r_minv()), mdd: mk(0real) });
    if h.len() > 0 {
        let g = h.drop_last(); let y = h.last();
        assert(all_positive(g)) by { assert forall|k: int| 0 <= k < g.len() implies (#[trigger] g[k]).v() > 0real by { assert(g[k] == h[k]); } }
        lemma_drawdown_history_scale(g, a);
        assert(affine(h, a, 0real).drop_last() =~= affine(g, a, 0real));
        assert(affine(h, a, 0real).last() == mk(a * y.v() + 0real));
        assert(mk(a * y.v() + 0real) == mk(a * y.v()));
        assert(y.v() > 0real);
        assert(a * y.v() > 0real) by(nonlinear_arith) requires a > 0real, y.v() > 0real;
        let s = run::<Drawdown<Echo>>(i, g); let t = run::<Drawdown<Echo>>(i, affine(g, a, 0real));
        if g.len() > 0 {
            lemma_drawdown_scale(s.1, y, a);
            let os = DrawdownOwn { peak: mk(a * s.1.peak.v()), mdd: s.1.mdd };
            assert(drawdown_own_step(t.1, mk(a * y.v())).mdd == drawdown_own_step(os, mk(a * y.v())).mdd);
            assert(drawdown_own_step(t.1, mk(a * y.v())).peak.v() == drawdown_own_step(os, mk(a * y.v())).peak.v());
        } else {
            ax_minmax();
            lemma_rdiv_unique(0real, y.v() - y.v(), y.v());
            lemma_rdiv_unique(0real, a * y.v() - a * y.v(), a * y.v());
        }
    } else {
        assert(affine(h, a, 0real) =~= Seq::<T>::empty());
    }
}
pub proof fn lemma_ln_return_history_scale(h: Seq<T>, a: real)
    requires all_positive(h), a > 0real
    ensures ({ let i = (None::<T>, LnReturnOwn { prev: mk(0real), cur: mk(0real) });
               LnReturn::<Echo>::out(run::<LnReturn<Echo>>(i, affine(h, a, 0real))) == LnReturn::<Echo>::out(run::<LnReturn<Echo>>(i, h)) })
{
    lemma_affine_positive(h, a);
    lemma_run_ln_return(h); lemma_run_ln_return(affine(h, a, 0real));
    if h.len() >= 2 {
        let i = (None::<T>, LnReturnOwn { prev: mk(0real), cur: mk(0real) });
        let s = run::<LnReturn<Echo>>(i, h);
        lemma_ln_return_scale(s.1, a);
        assert(affine(h, a, 0real).last() == mk(a * h.last().v() + 0real));
        assert(affine(h, a, 0real)[h.len() - 2] == mk(a * h[h.len() - 2].v() + 0real));
        let t = run::<LnReturn<Echo>>(i, affine(h, a, 0real));
        assert(t.1.prev.v() == a * s.1.prev.v() && t.1.cur.v() == a * s.1.cur.v());
        assert(t.1 == LnReturnOwn { prev: mk(a * s.1.prev.v()), cur: mk(a * s.1.cur.v()) });
    }
}
// scaling a history is superposition with itself and b = 0
pub proof fn lemma_lin_is_scale(h: Seq<T>, a: real)
    ensures lin(h, h, a, 0real) =~= affine(h, a, 0real)
{
}
pub proof fn lemma_ema_history_scale(i: EmaOwn, h: Seq<T>, a: real)
    requires i.k == 0, i.e == mk(0real)
    ensures opt_scale(Ema::<Echo>::out(run::<Ema<Echo>>((None::<T>, i), h)), Ema::<Echo>::out(run::<Ema<Echo>>((None::<T>, i), affine(h, a, 0real))), a)
{
    lemma_lin_is_scale(h, a); lemma_ema_superposition(i, h, h, a, 0real);
}
pub open spec fn opt_scale(p: Option<T>, q: Option<T>, a: real) -> bool { match (p, q) { (Some(x), Some(y)) => y.v() == a * x.v(), (None, None) => true, _ => false } }
pub proof fn lemma_alma_history_scale(i: AlmaOwn, h: Seq<T>, a: real)
    requires i.n >= 1, i.w.len() == 0, i.g.len() == 0, i.o.is_none()
    ensures opt_scale(Alma::<Echo>::out(run::<Alma<Echo>>((None::<T>, i), h)), Alma::<Echo>::out(run::<Alma<Echo>>((None::<T>, i), affine(h, a, 0real))), a)
{
    lemma_lin_is_scale(h, a); lemma_alma_superposition(i, h, h, a, 0real);
}
pub proof fn lemma_super_smoother_history_scale(i: SuperSmootherOwn, h: Seq<T>, a: real)
    requires i.f1 == mk(0real), i.f2 == mk(0real), i.x1 == mk(0real)
    ensures opt_scale(SuperSmoother::<Echo>::out(run::<SuperSmoother<Echo>>((None::<T>, i), h)), SuperSmoother::<Echo>::out(run::<SuperSmoother<Echo>>((None::<T>, i), affine(h, a, 0real))), a)
{
    lemma_lin_is_scale(h, a); lemma_super_smoother_superposition(i, h, h, a, 0real);
}
pub proof fn lemma_laguerre_filter_history_scale(i: LaguerreFilterOwn, h: Seq<T>, a: real)
    requires !i.started, i.l0 == mk(0real), i.l1 == mk(0real), i.l2 == mk(0real), i.l3 == mk(0real), i.f.is_none()
    ensures opt_scale(LaguerreFilter::<Echo>::out(run::<LaguerreFilter<Echo>>((None::<T>, i), h)), LaguerreFilter::<Echo>::out(run::<LaguerreFilter<Echo>>((None::<T>, i), affine(h, a, 0real))), a)
{
    lemma_lin_is_scale(h, a); lemma_laguerre_filter_superposition(i, h, h, a, 0real);
}
pub proof fn lemma_cyber_cycle_history_scale(i: CyberCycleOwn, h: Seq<T>, a: real)
    requires i.n >= 3, i.vals.len() == 0, i.outs.len() == 0
    ensures opt_scale(CyberCycle::<Echo>::out(run::<CyberCycle<Echo>>((None::<T>, i), h)), CyberCycle::<Echo>::out(run::<CyberCycle<Echo>>((None::<T>, i), affine(h, a, 0real))), a)
{
    lemma_lin_is_scale(h, a); lemma_cyber_cycle_superposition(i, h, h, a, 0real);
}
pub proof fn lemma_roofing_filter_history_scale(i: RoofingFilterOwn, h: Seq<T>, a: real)
    requires i.x1 == mk(0real), i.x2 == mk(0real), i.h1 == mk(0real), i.h2 == mk(0real), i.ss.0.is_none(), i.ss.1.f1 == mk(0real), i.ss.1.f2 == mk(0real), i.ss.1.x1 == mk(0real)
    ensures opt_scale(RoofingFilter::<Echo>::out(run::<RoofingFilter<Echo>>((None::<T>, i), h)), RoofingFilter::<Echo>::out(run::<RoofingFilter<Echo>>((None::<T>, i), affine(h, a, 0real))), a)
{
    lemma_lin_is_scale(h, a); lemma_roofing_filter_superposition(i, h, h, a, 0real);
}
