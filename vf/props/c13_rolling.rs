// C13: rolling statistics equal their batch definition over the whole history (views over Echo, positive inputs where required)
use crate::props::c00_window::*;

pub open spec fn all_positive(h: Seq<T>) -> bool { forall|i: int| 0 <= i < h.len() ==> (#[trigger] h[i]).v() > 0real }

// ---------- WelfordRolling: mean() and the population variance of all values so far ----------
pub proof fn lemma_run_welford_rolling(h: Seq<T>)
    ensures ({ let s = run::<WelfordRolling<Echo>>((None::<T>, WelfordRollingOwn { n: 0nat, mean: mk(0real), s: mk(0real) }), h);
               s.0 == echo_of(h) && s.1.n == h.len() && wstats(h, h.len(), s.1.mean.v(), s.1.s.v()) })
    decreases h.len()
{
    if h.len() > 0 {
        let g = h.drop_last();
        lemma_run_welford_rolling(g);
        let s0 = run::<WelfordRolling<Echo>>((None::<T>, WelfordRollingOwn { n: 0nat, mean: mk(0real), s: mk(0real) }), g);
        let y = h.last();
        let mean1 = s0.1.mean.v() + rdiv(y.v() - s0.1.mean.v(), (g.len() + 1) as real);
        lemma_welford_add(g, s0.1.mean.v(), s0.1.s.v(), y, mean1, s0.1.s.v() + (y.v() - s0.1.mean.v()) * (y.v() - mean1));
        assert(g.push(y) =~= h);
    } else {
        assert(sum(h) == 0real && sumsq(h) == 0real);
        assert(0real * 0real == 0real) by(nonlinear_arith);
    }
}
// mean * n == sum(h)   and   (s/n) * n^2 == n * sum of squares - (sum)^2   i.e. s/n is the population variance
pub proof fn lemma_welford_rolling_batch(h: Seq<T>)
    requires h.len() > 0
    ensures ({ let s = run::<WelfordRolling<Echo>>((None::<T>, WelfordRollingOwn { n: 0nat, mean: mk(0real), s: mk(0real) }), h);
               let n = h.len() as real;
               s.1.mean.v() == rdiv(sum(h), n) && s.1.s.v() == rdiv(n * sumsq(h) - sum(h) * sum(h), n) })
{
    lemma_run_welford_rolling(h);
    let s = run::<WelfordRolling<Echo>>((None::<T>, WelfordRollingOwn { n: 0nat, mean: mk(0real), s: mk(0real) }), h);
    let n = h.len() as real;
    lemma_rdiv_unique(s.1.mean.v(), sum(h), n);
    lemma_rdiv_unique(s.1.s.v(), n * sumsq(h) - sum(h) * sum(h), n);
}

// ---------- Drawdown: largest relative decline from the running maximum ----------
pub open spec fn dd_batch(h: Seq<T>) -> real decreases h.len() {
    if h.len() == 0 { 0real } else {
        let d = rdiv(smax(h) - h.last().v(), smax(h));            // (peak_j - x_j) / peak_j with peak_j = max(x_0..x_j)
        let r = dd_batch(h.drop_last());
        if d > r { d } else { r }
    }
}
pub proof fn lemma_run_drawdown(h: Seq<T>)
    requires all_positive(h)
    ensures ({ let s = run::<Drawdown<Echo>>((None::<T>, DrawdownOwn { peak: mk(r_minv()), mdd: mk(0real) }), h);
               s.0 == echo_of(h) && s.1.mdd.v() == dd_batch(h) && (h.len() > 0 ==> s.1.peak.v() == smax(h)) && (h.len() == 0 ==> s.1.peak.v() == r_minv()) })
    decreases h.len()
{
    ax_minmax();
    if h.len() > 0 {
        let g = h.drop_last();
        assert(all_positive(g)) by { assert forall|i: int| 0 <= i < g.len() implies (#[trigger] g[i]).v() > 0real by { assert(g[i] == h[i]); } }
        lemma_run_drawdown(g);
        assert(h.last() == h[h.len() - 1]);
        assert(g.push(h.last()) =~= h);
        lemma_smax_push(g, h.last());
        if g.len() > 0 { lemma_smax_is_max(g); }
    }
}

// ---------- LnReturn: ln(x_t / x_(t-1)) from the second value on ----------
pub proof fn lemma_run_ln_return(h: Seq<T>)
    requires all_positive(h)
    ensures ({ let s = run::<LnReturn<Echo>>((None::<T>, LnReturnOwn { prev: mk(0real), cur: mk(0real) }), h);
               s.0 == echo_of(h)
               && (h.len() >= 1 ==> s.1.cur == h.last()) && (h.len() >= 2 ==> s.1.prev == h[h.len() - 2]) && (h.len() < 2 ==> s.1.prev.v() == 0real) && (h.len() == 0 ==> s.1.cur.v() == 0real) })
    decreases h.len()
{
    if h.len() > 0 {
        let g = h.drop_last();
        assert(all_positive(g)) by { assert forall|i: int| 0 <= i < g.len() implies (#[trigger] g[i]).v() > 0real by { assert(g[i] == h[i]); } }
        lemma_run_ln_return(g);
        if g.len() >= 1 { assert(g.last() == h[h.len() - 2]); }
    }
}
pub proof fn lemma_ln_return_batch(h: Seq<T>)
    requires all_positive(h)
    ensures LnReturn::<Echo>::out(run::<LnReturn<Echo>>((None::<T>, LnReturnOwn { prev: mk(0real), cur: mk(0real) }), h))
        == (if h.len() < 2 { None::<T> } else { Some(mk(r_ln(rdiv(h.last().v(), h[h.len() - 2].v())))) })
{
    lemma_run_ln_return(h);
    if h.len() >= 2 { assert(h[h.len() - 2].v() > 0real); }
}
