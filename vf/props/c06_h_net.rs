// C02/C05/C06 at history level for this view (over Echo): abstract window == last N values; closed-form output
use crate::props::c00_window::*;
// NET: the output is Kendall's tau of the window whenever the window holds at least two values
pub proof fn lemma_run_net(h: Seq<T>, n: nat)
    requires n >= 1
    ensures ({ let s = run::<NoiseEliminationTechnology<Echo>>((None::<T>, NoiseEliminationTechnologyOwn { n: n, w: Seq::<T>::empty(), o: None::<T> }), h);
               s.0 == echo_of(h) && s.1.n == n && s.1.w == win(h, n) && (win(h, n).len() >= 2 ==> s.1.o == Some(mk(net_of(win(h, n))))) })
    decreases h.len()
{
    if h.len() > 0 { lemma_run_net(h.drop_last(), n); lemma_win_step(h, n); }
    else { assert(win(h, n) =~= Seq::<T>::empty()); }
}
