// C10, further views: Alma, CyberCycle, RoofingFilter one-step linearity (states of equal shape combine pointwise)
use crate::props::c10_superposition::*;

pub proof fn lemma_dot_lin(g: Seq<T>, u: Seq<T>, w: Seq<T>, a: real, b: real)
    requires g.len() == u.len(), u.len() == w.len()
    ensures dot(g, lin(u, w, a, b)) == a * dot(g, u) + b * dot(g, w)
    decreases g.len()
{
    if g.len() > 0 {
        lemma_dot_lin(g.drop_last(), u.drop_last(), w.drop_last(), a, b);
        assert(lin(u, w, a, b).drop_last() =~= lin(u.drop_last(), w.drop_last(), a, b));
        assert(lin(u, w, a, b).last().v() == a * u.last().v() + b * w.last().v());
        let gx = g.last().v();
        lemma_lin_mul(a, b, u.last().v(), w.last().v(), gx);
        lemma_lin_add(a, b, dot(g.drop_last(), u.drop_last()), dot(g.drop_last(), w.drop_last()), gx * u.last().v(), gx * w.last().v());
    } else {
        assert(a * 0real + b * 0real == 0real) by(nonlinear_arith);
    }
}
// Alma: the weights depend on positions only, so two runs of equal length carry the same weights
pub proof fn lemma_alma_linear(o1: AlmaOwn, o2: AlmaOwn, x: T, y: T, a: real, b: real)
    requires o1.n == o2.n, o1.m == o2.m, o1.s == o2.s, o1.g == o2.g, o1.w.len() == o2.w.len(), o1.g.len() == o1.w.len(), all_pos(o1.g), o1.n >= 1
    ensures ({ let o = AlmaOwn { n: o1.n, m: o1.m, s: o1.s, g: o1.g, w: lin(o1.w, o2.w, a, b), o: None::<T> };
        let z = mk(a * x.v() + b * y.v());
        let s = alma_own_step(o, z); let s1 = alma_own_step(o1, x); let s2 = alma_own_step(o2, y);
        s.g == s1.g && s1.g == s2.g && s.w =~= lin(s1.w, s2.w, a, b) && s.o.unwrap().v() == a * s1.o.unwrap().v() + b * s2.o.unwrap().v() })
{
    let full = o1.w.len() >= o1.n && o1.w.len() > 0;
    let u1 = if full { o1.w.drop_first() } else { o1.w }; let u2 = if full { o2.w.drop_first() } else { o2.w };
    let g1 = if full { o1.g.drop_first() } else { o1.g };
    let wt = mk(alma_wt(u1.len() as real, o1.m.v(), o1.s.v()));
    let w1 = u1.push(x); let w2 = u2.push(y); let g2 = g1.push(wt);
    let lw = if full { lin(o1.w, o2.w, a, b).drop_first() } else { lin(o1.w, o2.w, a, b) };
    assert(lw =~= lin(u1, u2, a, b));
    assert(lw.push(mk(a * x.v() + b * y.v())) =~= lin(w1, w2, a, b));
    lemma_dot_lin(g2, w1, w2, a, b);
    ax_exp_pos(rdiv(-r_powi((u1.len() as real) - o1.m.v(), 2), 2real * o1.s.v() * o1.s.v()));
    if full { lemma_all_pos_sum(o1.g); }
    lemma_all_pos_push(g1, wt); lemma_all_pos_sum(g2);
    let sg = sum(g2);
    lemma_rdiv_mul(dot(g2, w1), sg); lemma_rdiv_mul(dot(g2, w2), sg);
    lemma_lin_div(a, b, dot(g2, w1), dot(g2, w2), sg, rdiv(dot(g2, w1), sg), rdiv(dot(g2, w2), sg));
    lemma_rdiv_unique(a * rdiv(dot(g2, w1), sg) + b * rdiv(dot(g2, w2), sg), dot(g2, lin(w1, w2, a, b)), sg);
}
// CyberCycle: the 4-tap smoother and the two-pole section are linear in (window, previous outputs)
pub proof fn lemma_cc_sm_lin(v1: Seq<T>, v2: Seq<T>, i: int, a: real, b: real)
    requires v1.len() == v2.len(), 0 <= i < v1.len()
    ensures cc_sm(lin(v1, v2, a, b), i) == a * cc_sm(v1, i) + b * cc_sm(v2, i)
{
    if i >= 3 {
        let l = lin(v1, v2, a, b);
        let t1 = v1[i].v() + 2real * v1[i - 1].v() + 2real * v1[i - 2].v() + v1[i - 3].v();
        let t2 = v2[i].v() + 2real * v2[i - 1].v() + 2real * v2[i - 2].v() + v2[i - 3].v();
        lemma_lin_mul(a, b, v1[i - 1].v(), v2[i - 1].v(), 2real); lemma_lin_mul(a, b, v1[i - 2].v(), v2[i - 2].v(), 2real);
        lemma_lin_add(a, b, v1[i].v(), v2[i].v(), 2real * v1[i - 1].v(), 2real * v2[i - 1].v());
        lemma_lin_add(a, b, v1[i].v() + 2real * v1[i - 1].v(), v2[i].v() + 2real * v2[i - 1].v(), 2real * v1[i - 2].v(), 2real * v2[i - 2].v());
        lemma_lin_add(a, b, v1[i].v() + 2real * v1[i - 1].v() + 2real * v1[i - 2].v(), v2[i].v() + 2real * v2[i - 1].v() + 2real * v2[i - 2].v(), v1[i - 3].v(), v2[i - 3].v());
        lemma_rdiv_mul(t1, 6real); lemma_rdiv_mul(t2, 6real);
        lemma_lin_div(a, b, t1, t2, 6real, rdiv(t1, 6real), rdiv(t2, 6real));
        lemma_rdiv_unique(a * rdiv(t1, 6real) + b * rdiv(t2, 6real), a * t1 + b * t2, 6real);
    } else { assert(a * 0real + b * 0real == 0real) by(nonlinear_arith); }
}
pub proof fn lemma_cyber_cycle_linear(o1: CyberCycleOwn, o2: CyberCycleOwn, x: T, y: T, a: real, b: real)
    requires o1.n == o2.n, o1.alpha == o2.alpha, o1.vals.len() == o2.vals.len(), o1.outs.len() == o2.outs.len(), o1.outs.len() == o1.vals.len(), o1.n >= 3, o1.vals.len() <= o1.n
    ensures ({ let o = CyberCycleOwn { n: o1.n, alpha: o1.alpha, vals: lin(o1.vals, o2.vals, a, b), outs: lin(o1.outs, o2.outs, a, b) };
        let z = mk(a * x.v() + b * y.v());
        cc_step(o, z).vals =~= lin(cc_step(o1, x).vals, cc_step(o2, y).vals, a, b) && cc_step(o, z).outs =~= lin(cc_step(o1, x).outs, cc_step(o2, y).outs, a, b) })
{
    let n = o1.n; let full = o1.vals.len() >= n && o1.vals.len() > 0;
    let z = mk(a * x.v() + b * y.v());
    let v1 = wpush(o1.vals, x, n); let v2 = wpush(o2.vals, y, n);
    lemma_wpush_lin(o1.vals, o2.vals, x, y, n, a, b);
    let p1 = if full { o1.outs.drop_first() } else { o1.outs }; let p2 = if full { o2.outs.drop_first() } else { o2.outs };
    let pl = if full { lin(o1.outs, o2.outs, a, b).drop_first() } else { lin(o1.outs, o2.outs, a, b) };
    assert(pl =~= lin(p1, p2, a, b));
    let vl = wpush(lin(o1.vals, o2.vals, a, b), z, n);
    assert(vl =~= lin(v1, v2, a, b));
    if v1.len() < n {
        assert(a * 0real + b * 0real == 0real) by(nonlinear_arith);
        assert(pl.push(mk(0real)) =~= lin(p1.push(mk(0real)), p2.push(mk(0real)), a, b));
    } else {
        let last = v1.len() - 1; let al = o1.alpha.v();
        lemma_cc_sm_lin(v1, v2, last, a, b); lemma_cc_sm_lin(v1, v2, last - 1, a, b); lemma_cc_sm_lin(v1, v2, last - 2, a, b);
        let k1 = r_powi(1real - (5real / 10real) * al, 2); let k2 = 2real * (1real - al); let k3 = r_powi(1real - al, 2);
        let d1 = cc_sm(v1, last) - 2real * cc_sm(v1, last - 1) + cc_sm(v1, last - 2);
        let d2 = cc_sm(v2, last) - 2real * cc_sm(v2, last - 1) + cc_sm(v2, last - 2);
        lemma_lin_mul(a, b, cc_sm(v1, last - 1), cc_sm(v2, last - 1), 2real);
        lemma_lin_add(a, b, cc_sm(v1, last), cc_sm(v2, last), 2real * cc_sm(v1, last - 1), 2real * cc_sm(v2, last - 1));
        lemma_lin_add(a, b, cc_sm(v1, last) - 2real * cc_sm(v1, last - 1), cc_sm(v2, last) - 2real * cc_sm(v2, last - 1), cc_sm(v1, last - 2), cc_sm(v2, last - 2));
        lemma_lin_mul(a, b, d1, d2, k1);
        lemma_lin_mul(a, b, p1[last - 1].v(), p2[last - 1].v(), k2);
        lemma_lin_mul(a, b, p1[last - 2].v(), p2[last - 2].v(), k3);
        lemma_lin_add(a, b, k1 * d1, k1 * d2, k2 * p1[last - 1].v(), k2 * p2[last - 1].v());
        lemma_lin_add(a, b, k1 * d1 + k2 * p1[last - 1].v(), k1 * d2 + k2 * p2[last - 1].v(), k3 * p1[last - 2].v(), k3 * p2[last - 2].v());
        let c1 = k1 * d1 + k2 * p1[last - 1].v() - k3 * p1[last - 2].v();
        let c2 = k1 * d2 + k2 * p2[last - 1].v() - k3 * p2[last - 2].v();
        assert(cc_sm(vl, last) == cc_sm(lin(v1, v2, a, b), last) && cc_sm(vl, last - 1) == cc_sm(lin(v1, v2, a, b), last - 1) && cc_sm(vl, last - 2) == cc_sm(lin(v1, v2, a, b), last - 2));
        assert(pl[last - 1].v() == a * p1[last - 1].v() + b * p2[last - 1].v());
        assert(pl[last - 2].v() == a * p1[last - 2].v() + b * p2[last - 2].v());
        assert(pl.push(mk(a * c1 + b * c2)) =~= lin(p1.push(mk(c1)), p2.push(mk(c2)), a, b));
    }
}
// RoofingFilter: the two-pole high-pass is linear; the embedded SuperSmoother is linear by lemma_super_smoother_linear
pub proof fn lemma_roof_hp_linear(o1: RoofingFilterOwn, o2: RoofingFilterOwn, x: T, y: T, a: real, b: real)
    requires o1.alpha == o2.alpha
    ensures ({ let o = RoofingFilterOwn { n: o1.n, k: o1.k, alpha: o1.alpha, x1: mk(a * o1.x1.v() + b * o2.x1.v()), x2: mk(a * o1.x2.v() + b * o2.x2.v()),
                                         h1: mk(a * o1.h1.v() + b * o2.h1.v()), h2: mk(a * o1.h2.v() + b * o2.h2.v()), ss: o1.ss };
               roof_hp(o, mk(a * x.v() + b * y.v())) == a * roof_hp(o1, x) + b * roof_hp(o2, y) })
{
    let al = o1.alpha.v();
    let k1 = r_powi(1real - rdiv(al, 2real), 2); let k2 = 2real * (1real - al); let k3 = r_powi(1real - al, 2);
    let d1 = x.v() - 2real * o1.x1.v() + o1.x2.v(); let d2 = y.v() - 2real * o2.x1.v() + o2.x2.v();
    lemma_lin_mul(a, b, o1.x1.v(), o2.x1.v(), 2real);
    lemma_lin_add(a, b, x.v(), y.v(), 2real * o1.x1.v(), 2real * o2.x1.v());
    lemma_lin_add(a, b, x.v() - 2real * o1.x1.v(), y.v() - 2real * o2.x1.v(), o1.x2.v(), o2.x2.v());
    lemma_lin_mul(a, b, d1, d2, k1);
    lemma_lin_mul(a, b, o1.h1.v(), o2.h1.v(), k2);
    lemma_lin_mul(a, b, o1.h2.v(), o2.h2.v(), k3);
    lemma_lin_add(a, b, k1 * d1, k1 * d2, k2 * o1.h1.v(), k2 * o2.h1.v());
    lemma_lin_add(a, b, k1 * d1 + k2 * o1.h1.v(), k1 * d2 + k2 * o2.h1.v(), k3 * o1.h2.v(), k3 * o2.h2.v());
}
// a constant stream has zero second difference, so the high-pass sections receive no forcing term
pub proof fn lemma_roof_hp_constant(o: RoofingFilterOwn, c: T)
    requires o.x1 == c, o.x2 == c
    ensures roof_hp(o, c) == 2real * (1real - o.alpha.v()) * o.h1.v() - r_powi(1real - o.alpha.v(), 2) * o.h2.v()
{
    let k1 = r_powi(1real - rdiv(o.alpha.v(), 2real), 2);
    assert(k1 * (c.v() - 2real * c.v() + c.v()) == 0real) by(nonlinear_arith);
}
