// C12 for recursive normalised views: one-step scale equivariance of the state (x -> a x, a > 0) with an unchanged output.
// LaguerreRSI: ladder state scales with a, CU/(CU+CD) does not change.  TrendFlex / ReFlex: delay line and x1 scale with a,
// the leaky mean square with a^2, d/sqrt(ms) does not change.
use crate::props::c00_affine::*;
use crate::props::c04_averages::*;
use crate::props::c12_normalised::*;

pub proof fn lemma_lrsi_cucd_scale(l0: real, l1: real, l2: real, l3: real, a: real)
    requires a > 0real
    ensures lrsi_cu(a * l0, a * l1, a * l2, a * l3) == a * lrsi_cu(l0, l1, l2, l3), lrsi_cd(a * l0, a * l1, a * l2, a * l3) == a * lrsi_cd(l0, l1, l2, l3)
{
    assert((a * l0 >= a * l1) == (l0 >= l1) && (a * l1 >= a * l2) == (l1 >= l2) && (a * l2 >= a * l3) == (l2 >= l3)) by(nonlinear_arith) requires a > 0real;
    assert(a * l0 - a * l1 == a * (l0 - l1) && a * l1 - a * l2 == a * (l1 - l2) && a * l2 - a * l3 == a * (l2 - l3)) by(nonlinear_arith);
    assert(a * l1 - a * l0 == a * (l1 - l0) && a * l2 - a * l1 == a * (l2 - l1) && a * l3 - a * l2 == a * (l3 - l2)) by(nonlinear_arith);
    let c0 = if l0 >= l1 { l0 - l1 } else { 0real }; let c1 = if l1 >= l2 { l1 - l2 } else { 0real }; let c2 = if l2 >= l3 { l2 - l3 } else { 0real };
    let d0 = if l0 >= l1 { 0real } else { l1 - l0 }; let d1 = if l1 >= l2 { 0real } else { l2 - l1 }; let d2 = if l2 >= l3 { 0real } else { l3 - l2 };
    assert(a * (c0 + c1 + c2) == a * c0 + a * c1 + a * c2 && a * (d0 + d1 + d2) == a * d0 + a * d1 + a * d2 && a * 0real == 0real) by(nonlinear_arith);
}
pub proof fn lemma_ladder_scale(g: real, y: real, l0: real, l1: real, a: real)
    ensures (1real - g) * (a * y) + g * (a * l0) == a * ((1real - g) * y + g * l0),
            -g * (a * y) + (a * l0) + g * (a * l1) == a * (-g * y + l0 + g * l1)
{
    assert((1real - g) * (a * y) == a * ((1real - g) * y) && g * (a * l0) == a * (g * l0) && -g * (a * y) == a * (-g * y) && g * (a * l1) == a * (g * l1)) by(nonlinear_arith);
    assert(a * ((1real - g) * y + g * l0) == a * ((1real - g) * y) + a * (g * l0)) by(nonlinear_arith);
    assert(a * (-g * y + l0 + g * l1) == a * (-g * y) + a * l0 + a * (g * l1)) by(nonlinear_arith);
}
pub proof fn lemma_laguerre_rsi_scale(o: LaguerreRSIOwn, y: T, a: real)
    requires a > 0real
    ensures ({ let os = LaguerreRSIOwn { gamma: o.gamma, rows: o.rows, l0: mk(a * o.l0.v()), l1: mk(a * o.l1.v()), l2: mk(a * o.l2.v()), l3: mk(a * o.l3.v()), value: o.value };
               let s = laguerrersi_own_step(o, y); let t = laguerrersi_own_step(os, mk(a * y.v()));
               t.value == s.value && t.rows == s.rows && t.l0.v() == a * s.l0.v() && t.l1.v() == a * s.l1.v() && t.l2.v() == a * s.l2.v() && t.l3.v() == a * s.l3.v() })
{
    if o.rows < 2 { assert(a * 0real == 0real) by(nonlinear_arith); }
    else {
        let g = o.gamma.v();
        let l0 = (1real - g) * y.v() + g * o.l0.v();
        let l1 = -g * l0 + o.l0.v() + g * o.l1.v();
        let l2 = -g * l1 + o.l1.v() + g * o.l2.v();
        let l3 = -g * l2 + o.l2.v() + g * o.l3.v();
        lemma_ladder_scale(g, y.v(), o.l0.v(), o.l1.v(), a);
        lemma_ladder_scale(g, l0, o.l0.v(), o.l1.v(), a);
        lemma_ladder_scale(g, l1, o.l1.v(), o.l2.v(), a);
        lemma_ladder_scale(g, l2, o.l2.v(), o.l3.v(), a);
        lemma_lrsi_cucd_scale(l0, l1, l2, l3, a);
        let cu = lrsi_cu(l0, l1, l2, l3); let cd = lrsi_cd(l0, l1, l2, l3);
        assert(a * cu + a * cd == a * (cu + cd)) by(nonlinear_arith);
        lemma_mul_pos_zero(cu + cd, a); lemma_mul_comm(a, cu + cd);
        if cu + cd != 0real {
            let q = rdiv(cu, cu + cd); lemma_rdiv_mul(cu, cu + cd);
            assert(q * (a * (cu + cd)) == a * cu) by(nonlinear_arith) requires q * (cu + cd) == cu;
            lemma_rdiv_unique(q, a * cu, a * cu + a * cd);
        }
    }
}
// ---- TrendFlex / ReFlex
pub open spec fn scaled(q: Seq<T>, a: real) -> Seq<T> { affine(q, a, 0real) }
pub proof fn lemma_scaled_index(q: Seq<T>, a: real)
    ensures scaled(q, a).len() == q.len(), forall|i: int| 0 <= i < q.len() ==> (#[trigger] scaled(q, a)[i]).v() == a * q[i].v()
{}
pub proof fn lemma_flex_filt_scale(q: Seq<T>, x1: T, y: T, n: nat, a: real)
    ensures flex_filt(scaled(q, a), mk(a * x1.v()), mk(a * y.v()), n) == a * flex_filt(q, x1, y, n)
{
    lemma_scaled_index(q, a);
    let c1 = flex_c1(n); let b1 = flex_b1(n); let c3 = flex_c3(n);
    let base = rdiv(c1 * (y.v() + x1.v()), 2real); lemma_rdiv_mul(c1 * (y.v() + x1.v()), 2real);
    assert(c1 * (a * y.v() + a * x1.v()) == a * (c1 * (y.v() + x1.v()))) by(nonlinear_arith);
    assert((a * base) * 2real == a * (base * 2real)) by(nonlinear_arith);
    lemma_rdiv_unique(a * base, c1 * (a * y.v() + a * x1.v()), 2real);
    if q.len() == 1 {
        assert(b1 * (a * q[0].v()) == a * (b1 * q[0].v())) by(nonlinear_arith);
        assert(a * (base + b1 * q[0].v()) == a * base + a * (b1 * q[0].v())) by(nonlinear_arith);
    } else if q.len() >= 2 {
        let f1 = q[q.len() - 1].v(); let f2 = q[q.len() - 2].v();
        assert(b1 * (a * f1) == a * (b1 * f1) && c3 * (a * f2) == a * (c3 * f2)) by(nonlinear_arith);
        assert(a * (base + b1 * f1 + c3 * f2) == a * base + a * (b1 * f1) + a * (c3 * f2)) by(nonlinear_arith);
    }
}
pub proof fn lemma_tf_dsum_scale(q: Seq<T>, filt: real, i: int, a: real)
    requires 0 <= i <= q.len()
    ensures tf_dsum(scaled(q, a), a * filt, i) == a * tf_dsum(q, filt, i)
    decreases i
{
    lemma_scaled_index(q, a);
    if i > 0 {
        lemma_tf_dsum_scale(q, filt, i - 1, a);
        let x = q[q.len() - 1 - (i - 1)].v();
        assert(a * filt - a * x == a * (filt - x)) by(nonlinear_arith);
        assert(a * (tf_dsum(q, filt, i - 1) + (filt - x)) == a * tf_dsum(q, filt, i - 1) + a * (filt - x)) by(nonlinear_arith);
    } else { assert(a * 0real == 0real) by(nonlinear_arith); }
}
pub proof fn lemma_rf_dsum_scale(q: Seq<T>, filt: real, slope: real, i: int, a: real)
    requires 0 <= i <= q.len()
    ensures rf_dsum(scaled(q, a), a * filt, a * slope, i) == a * rf_dsum(q, filt, slope, i)
    decreases i
{
    lemma_scaled_index(q, a);
    if i > 0 {
        lemma_rf_dsum_scale(q, filt, slope, i - 1, a);
        let x = q[q.len() - 1 - (i - 1)].v(); let j = (i - 1) as real;
        assert((a * filt + j * (a * slope)) - a * x == a * ((filt + j * slope) - x)) by(nonlinear_arith);
        assert(a * (rf_dsum(q, filt, slope, i - 1) + ((filt + j * slope) - x)) == a * rf_dsum(q, filt, slope, i - 1) + a * ((filt + j * slope) - x)) by(nonlinear_arith);
    } else { assert(a * 0real == 0real) by(nonlinear_arith); }
}
// the normalised output stage: d / sqrt(0.04 d^2 + 0.96 ms) is unchanged when d -> a d, ms -> a^2 ms
pub proof fn lemma_flex_output_scale(d: real, ms: real, a: real)
    requires a > 0real
    ensures ({ let ms0 = (4real / 100real) * r_powi(d, 2) + (96real / 100real) * ms;
               let ms1 = (4real / 100real) * r_powi(a * d, 2) + (96real / 100real) * ((a * a) * ms);
               ms1 == (a * a) * ms0 && (ms1 > 0real) == (ms0 > 0real) && (ms0 > 0real ==> rdiv(a * d, r_sqrt(ms1)) == rdiv(d, r_sqrt(ms0))) })
{
    let ms0 = (4real / 100real) * r_powi(d, 2) + (96real / 100real) * ms;
    let ms1 = (4real / 100real) * r_powi(a * d, 2) + (96real / 100real) * ((a * a) * ms);
    ax_powi2(d); ax_powi2(a * d);
    assert((a * d) * (a * d) == (a * a) * (d * d)) by(nonlinear_arith);
    assert((a * a) * ((4real / 100real) * (d * d) + (96real / 100real) * ms) == (4real / 100real) * ((a * a) * (d * d)) + (96real / 100real) * ((a * a) * ms)) by(nonlinear_arith);
    assert(a * a > 0real) by(nonlinear_arith) requires a > 0real;
    assert(((a * a) * ms0 > 0real) == (ms0 > 0real)) by(nonlinear_arith) requires a * a > 0real;
    if ms0 > 0real {
        lemma_sqrt_scale(a, ms0); lemma_sqrt_pos(ms0);
        let s = r_sqrt(ms0); let q = rdiv(d, s); lemma_rdiv_mul(d, s);
        assert(a * s != 0real) by(nonlinear_arith) requires a > 0real, s > 0real;
        assert(q * (a * s) == a * d) by(nonlinear_arith) requires q * s == d;
        lemma_rdiv_unique(q, a * d, a * s);
    }
}
pub proof fn lemma_trend_flex_scale(o: TrendFlexOwn, y: T, a: real)
    requires a > 0real, o.n >= 1
    ensures ({ let os = TrendFlexOwn { n: o.n, x1: mk(a * o.x1.v()), ms: mk((a * a) * o.ms.v()), q: scaled(o.q, a), o: o.o };
               let s = tf_step(o, y); let t = tf_step(os, mk(a * y.v()));
               t.o == s.o && t.q =~= scaled(s.q, a) && t.x1.v() == a * s.x1.v() && t.ms.v() == (a * a) * s.ms.v() })
{
    let x1 = if o.q.len() == 0 { y } else { o.x1 };
    let q1 = flex_evict(o.q, o.n);
    lemma_scaled_index(o.q, a);
    assert(flex_evict(scaled(o.q, a), o.n) =~= scaled(q1, a));
    lemma_flex_filt_scale(q1, x1, y, o.n, a);
    let filt = flex_filt(q1, x1, y, o.n);
    let q2 = q1.push(mk(filt));
    assert(scaled(q1, a).push(mk(a * filt)) =~= scaled(q2, a));
    lemma_tf_dsum_scale(q2, filt, q2.len() as int, a);
    let ds = tf_dsum(q2, filt, q2.len() as int); let nn = o.n as real;
    let d = rdiv(ds, nn); lemma_rdiv_mul(ds, nn);
    assert((a * d) * nn == a * ds) by(nonlinear_arith) requires d * nn == ds;
    lemma_rdiv_unique(a * d, a * ds, nn);
    lemma_flex_output_scale(d, o.ms.v(), a);
}
pub proof fn lemma_re_flex_scale(o: ReFlexOwn, y: T, a: real)
    requires a > 0real, o.n >= 1
    ensures ({ let os = ReFlexOwn { n: o.n, x1: mk(a * o.x1.v()), ms: mk((a * a) * o.ms.v()), q: scaled(o.q, a), o: o.o };
               let s = rf_step(o, y); let t = rf_step(os, mk(a * y.v()));
               t.o == s.o && t.q =~= scaled(s.q, a) && t.x1.v() == a * s.x1.v() && t.ms.v() == (a * a) * s.ms.v() })
{
    let x1 = if o.q.len() == 0 { y } else { o.x1 };
    let q1 = flex_evict(o.q, o.n);
    lemma_scaled_index(o.q, a);
    assert(flex_evict(scaled(o.q, a), o.n) =~= scaled(q1, a));
    lemma_flex_filt_scale(q1, x1, y, o.n, a);
    let filt = flex_filt(q1, x1, y, o.n);
    let q2 = q1.push(mk(filt));
    assert(scaled(q1, a).push(mk(a * filt)) =~= scaled(q2, a));
    let nn = o.n as real;
    let slope = rdiv(q2[0].v() - filt, nn); lemma_rdiv_mul(q2[0].v() - filt, nn);
    lemma_scaled_index(q2, a);
    assert((a * slope) * nn == a * q2[0].v() - a * filt) by(nonlinear_arith) requires slope * nn == q2[0].v() - filt;
    lemma_rdiv_unique(a * slope, a * q2[0].v() - a * filt, nn);
    lemma_rf_dsum_scale(q2, filt, slope, q2.len() as int, a);
    let ds = rf_dsum(q2, filt, slope, q2.len() as int);
    let d = rdiv(ds, nn); lemma_rdiv_mul(ds, nn);
    assert((a * d) * nn == a * ds) by(nonlinear_arith) requires d * nn == ds;
    lemma_rdiv_unique(a * d, a * ds, nn);
    lemma_flex_output_scale(d, o.ms.v(), a);
}
