// C10 at whole-history level: for two input histories of equal length and constants a, b, the state (and therefore every output)
// of a linear view on the combined history a*h1 + b*h2 is the same combination of its states on h1 and h2 - by induction over
// the histories with the one-step lemmas of c10_superposition / c10_more.  Views over Echo; chains follow by C01.
use crate::props::c10_superposition::*;
use crate::props::c10_more::*;
use crate::props::c00_window::*;
use crate::props::c02_h_sma::*;
use crate::props::c02_h_cumulative::*;

pub proof fn lemma_lin_drop_last(h1: Seq<T>, h2: Seq<T>, a: real, b: real)
    requires h1.len() == h2.len(), h1.len() > 0
    ensures lin(h1, h2, a, b).drop_last() =~= lin(h1.drop_last(), h2.drop_last(), a, b),
            lin(h1, h2, a, b).last() == mk(a * h1.last().v() + b * h2.last().v())
{
}
// ---- Ema
pub open spec fn ema_comb(o1: EmaOwn, o2: EmaOwn, a: real, b: real) -> EmaOwn { EmaOwn { n: o1.n, alpha: o1.alpha, k: o1.k, e: mk(a * o1.e.v() + b * o2.e.v()) } }
pub proof fn lemma_ema_superposition(i: EmaOwn, h1: Seq<T>, h2: Seq<T>, a: real, b: real)
    requires h1.len() == h2.len(), i.k == 0, i.e == mk(0real)
    ensures ({ let s1 = run::<Ema<Echo>>((None::<T>, i), h1); let s2 = run::<Ema<Echo>>((None::<T>, i), h2);
               let s = run::<Ema<Echo>>((None::<T>, i), lin(h1, h2, a, b));
               s1.1.n == i.n && s2.1.n == i.n && s1.1.alpha == i.alpha && s2.1.alpha == i.alpha && s1.1.k == h1.len() && s2.1.k == h1.len()
               && s.1 == ema_comb(s1.1, s2.1, a, b)
               && (match (Ema::<Echo>::out(s1), Ema::<Echo>::out(s2), Ema::<Echo>::out(s)) {
                     (Some(p), Some(q), Some(r)) => r.v() == a * p.v() + b * q.v(), (None, None, None) => true, _ => false }) })
    decreases h1.len()
{
    if h1.len() > 0 {
        lemma_ema_superposition(i, h1.drop_last(), h2.drop_last(), a, b);
        lemma_lin_drop_last(h1, h2, a, b);
        let s1 = run::<Ema<Echo>>((None::<T>, i), h1.drop_last()); let s2 = run::<Ema<Echo>>((None::<T>, i), h2.drop_last());
        lemma_ema_linear(s1.1, s2.1, h1.last(), h2.last(), a, b);
    } else {
        assert(lin(h1, h2, a, b) =~= Seq::<T>::empty());
        assert(a * 0real + b * 0real == 0real) by(nonlinear_arith);
    }
}
// ---- LaguerreFilter: one-step linearity of the four-stage ladder and of the (l0 + 2 l1 + 2 l2 + l3)/6 output, then histories
pub proof fn lemma_lag_out_lin(p0: real, p1: real, p2: real, p3: real, q0: real, q1: real, q2: real, q3: real, a: real, b: real)
    ensures lag_out(a * p0 + b * q0, a * p1 + b * q1, a * p2 + b * q2, a * p3 + b * q3) == a * lag_out(p0, p1, p2, p3) + b * lag_out(q0, q1, q2, q3)
{
    let t1 = p0 + 2real * p1 + 2real * p2 + p3; let t2 = q0 + 2real * q1 + 2real * q2 + q3;
    lemma_lin_mul(a, b, p1, q1, 2real); lemma_lin_mul(a, b, p2, q2, 2real);
    lemma_lin_add(a, b, p0, q0, 2real * p1, 2real * q1);
    lemma_lin_add(a, b, p0 + 2real * p1, q0 + 2real * q1, 2real * p2, 2real * q2);
    lemma_lin_add(a, b, p0 + 2real * p1 + 2real * p2, q0 + 2real * q1 + 2real * q2, p3, q3);
    lemma_rdiv_mul(t1, 6real); lemma_rdiv_mul(t2, 6real);
    lemma_lin_div(a, b, t1, t2, 6real, rdiv(t1, 6real), rdiv(t2, 6real));
    lemma_rdiv_unique(a * rdiv(t1, 6real) + b * rdiv(t2, 6real), a * t1 + b * t2, 6real);
}
pub open spec fn lag_comb(o1: LaguerreFilterOwn, o2: LaguerreFilterOwn, a: real, b: real) -> LaguerreFilterOwn {
    LaguerreFilterOwn { gamma: o1.gamma, started: o1.started, l0: mk(a * o1.l0.v() + b * o2.l0.v()), l1: mk(a * o1.l1.v() + b * o2.l1.v()),
        l2: mk(a * o1.l2.v() + b * o2.l2.v()), l3: mk(a * o1.l3.v() + b * o2.l3.v()),
        f: match (o1.f, o2.f) { (Some(p), Some(q)) => Some(mk(a * p.v() + b * q.v())), _ => None::<T> } }
}
pub proof fn lemma_lag_stage_lin(g: real, n1: real, n2: real, p1: real, p2: real, c1: real, c2: real, a: real, b: real)
    ensures -g * (a * n1 + b * n2) + (a * p1 + b * p2) + g * (a * c1 + b * c2) == a * (-g * n1 + p1 + g * c1) + b * (-g * n2 + p2 + g * c2)
{
    lemma_lin_mul(a, b, n1, n2, -g); lemma_lin_mul(a, b, c1, c2, g);
    lemma_lin_add(a, b, -g * n1, -g * n2, p1, p2);
    lemma_lin_add(a, b, -g * n1 + p1, -g * n2 + p2, g * c1, g * c2);
}
pub proof fn lemma_laguerre_filter_linear(o1: LaguerreFilterOwn, o2: LaguerreFilterOwn, x: T, y: T, a: real, b: real)
    requires o1.gamma == o2.gamma, o1.started == o2.started
    ensures laguerre_filter_own_step(lag_comb(o1, o2, a, b), mk(a * x.v() + b * y.v())) == lag_comb(laguerre_filter_own_step(o1, x), laguerre_filter_own_step(o2, y), a, b)
{
    let g = o1.gamma.v();
    if !o1.started {
        lemma_lag_out_lin(x.v(), x.v(), x.v(), x.v(), y.v(), y.v(), y.v(), y.v(), a, b);
    } else {
        let s1 = laguerre_filter_own_step(o1, x); let s2 = laguerre_filter_own_step(o2, y);
        lemma_lin_mul(a, b, x.v(), y.v(), 1real - g); lemma_lin_mul(a, b, o1.l0.v(), o2.l0.v(), g);
        lemma_lin_add(a, b, (1real - g) * x.v(), (1real - g) * y.v(), g * o1.l0.v(), g * o2.l0.v());
        lemma_lag_stage_lin(g, s1.l0.v(), s2.l0.v(), o1.l0.v(), o2.l0.v(), o1.l1.v(), o2.l1.v(), a, b);
        lemma_lag_stage_lin(g, s1.l1.v(), s2.l1.v(), o1.l1.v(), o2.l1.v(), o1.l2.v(), o2.l2.v(), a, b);
        lemma_lag_stage_lin(g, s1.l2.v(), s2.l2.v(), o1.l2.v(), o2.l2.v(), o1.l3.v(), o2.l3.v(), a, b);
        lemma_lag_out_lin(s1.l0.v(), s1.l1.v(), s1.l2.v(), s1.l3.v(), s2.l0.v(), s2.l1.v(), s2.l2.v(), s2.l3.v(), a, b);
    }
}
pub proof fn lemma_laguerre_filter_superposition(i: LaguerreFilterOwn, h1: Seq<T>, h2: Seq<T>, a: real, b: real)
    requires h1.len() == h2.len(), !i.started, i.l0 == mk(0real), i.l1 == mk(0real), i.l2 == mk(0real), i.l3 == mk(0real), i.f.is_none()
    ensures ({ let s1 = run::<LaguerreFilter<Echo>>((None::<T>, i), h1); let s2 = run::<LaguerreFilter<Echo>>((None::<T>, i), h2);
               let s = run::<LaguerreFilter<Echo>>((None::<T>, i), lin(h1, h2, a, b));
               s1.1.gamma == i.gamma && s2.1.gamma == i.gamma && s1.1.started == s2.1.started && s.1 == lag_comb(s1.1, s2.1, a, b)
               && (match (LaguerreFilter::<Echo>::out(s1), LaguerreFilter::<Echo>::out(s2), LaguerreFilter::<Echo>::out(s)) {
                     (Some(p), Some(q), Some(r)) => r.v() == a * p.v() + b * q.v(), (None, None, None) => true, _ => false }) })
    decreases h1.len()
{
    if h1.len() > 0 {
        lemma_laguerre_filter_superposition(i, h1.drop_last(), h2.drop_last(), a, b);
        lemma_lin_drop_last(h1, h2, a, b);
        let s1 = run::<LaguerreFilter<Echo>>((None::<T>, i), h1.drop_last()); let s2 = run::<LaguerreFilter<Echo>>((None::<T>, i), h2.drop_last());
        lemma_laguerre_filter_linear(s1.1, s2.1, h1.last(), h2.last(), a, b);
    } else {
        assert(lin(h1, h2, a, b) =~= Seq::<T>::empty());
        assert(a * 0real + b * 0real == 0real) by(nonlinear_arith);
    }
}
// ---- SuperSmoother
pub open spec fn ss_comb(o1: SuperSmootherOwn, o2: SuperSmootherOwn, a: real, b: real) -> SuperSmootherOwn {
    SuperSmootherOwn { n: o1.n, k: o1.k, c1: o1.c1, c2: o1.c2, c3: o1.c3, f1: mk(a * o1.f1.v() + b * o2.f1.v()), f2: mk(a * o1.f2.v() + b * o2.f2.v()), x1: mk(a * o1.x1.v() + b * o2.x1.v()) }
}
pub open spec fn ss_same(o1: SuperSmootherOwn, o2: SuperSmootherOwn) -> bool { o1.n == o2.n && o1.k == o2.k && o1.c1 == o2.c1 && o1.c2 == o2.c2 && o1.c3 == o2.c3 }
pub proof fn lemma_super_smoother_comb_step(o1: SuperSmootherOwn, o2: SuperSmootherOwn, x: T, y: T, a: real, b: real)
    requires ss_same(o1, o2)
    ensures super_smoother_own_step(ss_comb(o1, o2, a, b), mk(a * x.v() + b * y.v())) == ss_comb(super_smoother_own_step(o1, x), super_smoother_own_step(o2, y), a, b),
            ss_same(super_smoother_own_step(o1, x), super_smoother_own_step(o2, y))
{
    lemma_super_smoother_linear(o1, o2, x, y, a, b);
}
pub proof fn lemma_super_smoother_superposition(i: SuperSmootherOwn, h1: Seq<T>, h2: Seq<T>, a: real, b: real)
    requires h1.len() == h2.len(), i.f1 == mk(0real), i.f2 == mk(0real), i.x1 == mk(0real)
    ensures ({ let s1 = run::<SuperSmoother<Echo>>((None::<T>, i), h1); let s2 = run::<SuperSmoother<Echo>>((None::<T>, i), h2);
               let s = run::<SuperSmoother<Echo>>((None::<T>, i), lin(h1, h2, a, b));
               ss_same(s1.1, s2.1) && ss_same(s1.1, SuperSmootherOwn { k: i.k + h1.len(), ..i }) && s.1 == ss_comb(s1.1, s2.1, a, b)
               && (match (SuperSmoother::<Echo>::out(s1), SuperSmoother::<Echo>::out(s2), SuperSmoother::<Echo>::out(s)) {
                     (Some(p), Some(q), Some(r)) => r.v() == a * p.v() + b * q.v(), (None, None, None) => true, _ => false }) })
    decreases h1.len()
{
    if h1.len() > 0 {
        lemma_super_smoother_superposition(i, h1.drop_last(), h2.drop_last(), a, b);
        lemma_lin_drop_last(h1, h2, a, b);
        let s1 = run::<SuperSmoother<Echo>>((None::<T>, i), h1.drop_last()); let s2 = run::<SuperSmoother<Echo>>((None::<T>, i), h2.drop_last());
        lemma_super_smoother_comb_step(s1.1, s2.1, h1.last(), h2.last(), a, b);
    } else {
        assert(lin(h1, h2, a, b) =~= Seq::<T>::empty());
        assert(a * 0real + b * 0real == 0real) by(nonlinear_arith);
    }
}
// ---- Sma, Cumulative: the window of the combined history is the combination of the windows
pub proof fn lemma_win_lin(h1: Seq<T>, h2: Seq<T>, n: nat, a: real, b: real)
    requires h1.len() == h2.len()
    ensures win(lin(h1, h2, a, b), n) =~= lin(win(h1, n), win(h2, n), a, b)
{
}
pub proof fn lemma_sma_superposition(n: nat, h1: Seq<T>, h2: Seq<T>, a: real, b: real)
    requires h1.len() == h2.len(), n >= 1
    ensures ({ let i = (None::<T>, SmaOwn { n: n, w: Seq::<T>::empty() });
               match (Sma::<Echo>::out(run::<Sma<Echo>>(i, h1)), Sma::<Echo>::out(run::<Sma<Echo>>(i, h2)), Sma::<Echo>::out(run::<Sma<Echo>>(i, lin(h1, h2, a, b)))) {
                     (Some(p), Some(q), Some(r)) => r.v() == a * p.v() + b * q.v(), (None, None, None) => true, _ => false } })
{
    lemma_run_sma(h1, n); lemma_run_sma(h2, n); lemma_run_sma(lin(h1, h2, a, b), n);
    lemma_win_lin(h1, h2, n, a, b);
    if h1.len() > 0 { lemma_sma_linear(SmaOwn { n: n, w: win(h1, n) }, SmaOwn { n: n, w: win(h2, n) }, h1.last(), h2.last(), a, b); }
}
pub proof fn lemma_cumulative_superposition(n: nat, h1: Seq<T>, h2: Seq<T>, a: real, b: real)
    requires h1.len() == h2.len(), n >= 1
    ensures ({ let i = (None::<T>, CumulativeOwn { n: n, w: Seq::<T>::empty() });
               match (Cumulative::<Echo>::out(run::<Cumulative<Echo>>(i, h1)), Cumulative::<Echo>::out(run::<Cumulative<Echo>>(i, h2)), Cumulative::<Echo>::out(run::<Cumulative<Echo>>(i, lin(h1, h2, a, b)))) {
                     (Some(p), Some(q), Some(r)) => r.v() == a * p.v() + b * q.v(), (None, None, None) => true, _ => false } })
{
    lemma_run_cumulative(h1, n); lemma_run_cumulative(h2, n); lemma_run_cumulative(lin(h1, h2, a, b), n);
    lemma_win_lin(h1, h2, n, a, b);
    if h1.len() > 0 { lemma_cumulative_linear(CumulativeOwn { n: n, w: win(h1, n) }, CumulativeOwn { n: n, w: win(h2, n) }, h1.last(), h2.last(), a, b); }
}
// ---- CyberCycle (N >= 3: the smoother and the two-pole section reach three samples back)
pub open spec fn cc_comb(o1: CyberCycleOwn, o2: CyberCycleOwn, a: real, b: real) -> CyberCycleOwn {
    CyberCycleOwn { n: o1.n, alpha: o1.alpha, vals: lin(o1.vals, o2.vals, a, b), outs: lin(o1.outs, o2.outs, a, b) }
}
pub open spec fn cc_same(o1: CyberCycleOwn, o2: CyberCycleOwn) -> bool {
    o1.n == o2.n && o1.alpha == o2.alpha && o1.vals.len() == o2.vals.len() && o1.outs.len() == o2.outs.len() && o1.outs.len() == o1.vals.len() && o1.vals.len() <= o1.n
}
pub proof fn lemma_cyber_cycle_comb_step(o1: CyberCycleOwn, o2: CyberCycleOwn, x: T, y: T, a: real, b: real)
    requires cc_same(o1, o2), o1.n >= 3
    ensures cc_step(cc_comb(o1, o2, a, b), mk(a * x.v() + b * y.v())) == cc_comb(cc_step(o1, x), cc_step(o2, y), a, b), cc_same(cc_step(o1, x), cc_step(o2, y)),
            cc_step(o1, x).n == o1.n && cc_step(o1, x).alpha == o1.alpha
{
    lemma_cyber_cycle_linear(o1, o2, x, y, a, b);
    let s = cc_step(cc_comb(o1, o2, a, b), mk(a * x.v() + b * y.v())); let t = cc_comb(cc_step(o1, x), cc_step(o2, y), a, b);
    assert(s.vals =~= t.vals && s.outs =~= t.outs);
}
pub proof fn lemma_cyber_cycle_superposition(i: CyberCycleOwn, h1: Seq<T>, h2: Seq<T>, a: real, b: real)
    requires h1.len() == h2.len(), i.n >= 3, i.vals.len() == 0, i.outs.len() == 0
    ensures ({ let s1 = run::<CyberCycle<Echo>>((None::<T>, i), h1); let s2 = run::<CyberCycle<Echo>>((None::<T>, i), h2);
               let s = run::<CyberCycle<Echo>>((None::<T>, i), lin(h1, h2, a, b));
               cc_same(s1.1, s2.1) && s1.1.n == i.n && s1.1.alpha == i.alpha && s.1 == cc_comb(s1.1, s2.1, a, b)
               && (match (CyberCycle::<Echo>::out(s1), CyberCycle::<Echo>::out(s2), CyberCycle::<Echo>::out(s)) {
                     (Some(p), Some(q), Some(r)) => r.v() == a * p.v() + b * q.v(), (None, None, None) => true, _ => false }) })
    decreases h1.len()
{
    if h1.len() > 0 {
        lemma_cyber_cycle_superposition(i, h1.drop_last(), h2.drop_last(), a, b);
        lemma_lin_drop_last(h1, h2, a, b);
        let s1 = run::<CyberCycle<Echo>>((None::<T>, i), h1.drop_last()); let s2 = run::<CyberCycle<Echo>>((None::<T>, i), h2.drop_last());
        lemma_cyber_cycle_comb_step(s1.1, s2.1, h1.last(), h2.last(), a, b);
    } else {
        assert(lin(h1, h2, a, b) =~= Seq::<T>::empty());
        assert(cc_comb(i, i, a, b).vals =~= i.vals && cc_comb(i, i, a, b).outs =~= i.outs);
    }
}
// ---- Alma: the Gaussian weights depend on insertion positions only, so equal-length runs carry identical weight buffers
pub open spec fn alma_comb(o1: AlmaOwn, o2: AlmaOwn, a: real, b: real) -> AlmaOwn {
    AlmaOwn { n: o1.n, m: o1.m, s: o1.s, g: o1.g, w: lin(o1.w, o2.w, a, b), o: match (o1.o, o2.o) { (Some(p), Some(q)) => Some(mk(a * p.v() + b * q.v())), _ => None::<T> } }
}
pub open spec fn alma_same(o1: AlmaOwn, o2: AlmaOwn) -> bool {
    o1.n == o2.n && o1.m == o2.m && o1.s == o2.s && o1.g == o2.g && o1.w.len() == o2.w.len() && o1.g.len() == o1.w.len() && all_pos(o1.g) && o1.o.is_some() == o2.o.is_some()
}
pub proof fn lemma_alma_comb_step(o1: AlmaOwn, o2: AlmaOwn, x: T, y: T, a: real, b: real)
    requires alma_same(o1, o2), o1.n >= 1
    ensures alma_own_step(alma_comb(o1, o2, a, b), mk(a * x.v() + b * y.v())) == alma_comb(alma_own_step(o1, x), alma_own_step(o2, y), a, b), alma_same(alma_own_step(o1, x), alma_own_step(o2, y)),
            alma_own_step(o1, x).n == o1.n && alma_own_step(o1, x).m == o1.m && alma_own_step(o1, x).s == o1.s
{
    lemma_alma_linear(o1, o2, x, y, a, b);
    let c = alma_comb(o1, o2, a, b); let c0 = AlmaOwn { o: None::<T>, ..c };
    let z = mk(a * x.v() + b * y.v());
    assert(alma_own_step(c, z) == alma_own_step(c0, z));
    let s = alma_own_step(c, z); let t = alma_comb(alma_own_step(o1, x), alma_own_step(o2, y), a, b);
    assert(s.w =~= t.w);
    let full = o1.w.len() >= o1.n && o1.w.len() > 0;
    let g1 = if full { o1.g.drop_first() } else { o1.g };
    let u1 = if full { o1.w.drop_first() } else { o1.w };
    if full { lemma_all_pos_sum(o1.g); }
    ax_exp_pos(rdiv(-r_powi((u1.len() as real) - o1.m.v(), 2), 2real * o1.s.v() * o1.s.v()));
    lemma_all_pos_push(g1, mk(alma_wt(u1.len() as real, o1.m.v(), o1.s.v())));
}
pub proof fn lemma_alma_superposition(i: AlmaOwn, h1: Seq<T>, h2: Seq<T>, a: real, b: real)
    requires h1.len() == h2.len(), i.n >= 1, i.w.len() == 0, i.g.len() == 0, i.o.is_none()
    ensures ({ let s1 = run::<Alma<Echo>>((None::<T>, i), h1); let s2 = run::<Alma<Echo>>((None::<T>, i), h2);
               let s = run::<Alma<Echo>>((None::<T>, i), lin(h1, h2, a, b));
               alma_same(s1.1, s2.1) && s1.1.n == i.n && s1.1.m == i.m && s1.1.s == i.s && s.1 == alma_comb(s1.1, s2.1, a, b)
               && (match (Alma::<Echo>::out(s1), Alma::<Echo>::out(s2), Alma::<Echo>::out(s)) {
                     (Some(p), Some(q), Some(r)) => r.v() == a * p.v() + b * q.v(), (None, None, None) => true, _ => false }) })
    decreases h1.len()
{
    if h1.len() > 0 {
        lemma_alma_superposition(i, h1.drop_last(), h2.drop_last(), a, b);
        lemma_lin_drop_last(h1, h2, a, b);
        let s1 = run::<Alma<Echo>>((None::<T>, i), h1.drop_last()); let s2 = run::<Alma<Echo>>((None::<T>, i), h2.drop_last());
        lemma_alma_comb_step(s1.1, s2.1, h1.last(), h2.last(), a, b);
    } else {
        assert(lin(h1, h2, a, b) =~= Seq::<T>::empty());
        assert(alma_comb(i, i, a, b).w =~= i.w);
    }
}
// ---- RoofingFilter: linear two-pole high-pass feeding an embedded (linear) SuperSmoother
pub open spec fn echo_comb(e1: Option<T>, e2: Option<T>, a: real, b: real) -> Option<T> { match (e1, e2) { (Some(p), Some(q)) => Some(mk(a * p.v() + b * q.v())), _ => None::<T> } }
pub open spec fn roof_comb(o1: RoofingFilterOwn, o2: RoofingFilterOwn, a: real, b: real) -> RoofingFilterOwn {
    RoofingFilterOwn { n: o1.n, k: o1.k, alpha: o1.alpha, x1: mk(a * o1.x1.v() + b * o2.x1.v()), x2: mk(a * o1.x2.v() + b * o2.x2.v()),
        h1: mk(a * o1.h1.v() + b * o2.h1.v()), h2: mk(a * o1.h2.v() + b * o2.h2.v()), ss: (echo_comb(o1.ss.0, o2.ss.0, a, b), ss_comb(o1.ss.1, o2.ss.1, a, b)) }
}
pub open spec fn roof_same(o1: RoofingFilterOwn, o2: RoofingFilterOwn) -> bool {
    o1.n == o2.n && o1.k == o2.k && o1.alpha == o2.alpha && ss_same(o1.ss.1, o2.ss.1) && o1.ss.0.is_some() == o2.ss.0.is_some()
}
pub proof fn lemma_roofing_filter_comb_step(o1: RoofingFilterOwn, o2: RoofingFilterOwn, x: T, y: T, a: real, b: real)
    requires roof_same(o1, o2)
    ensures roofing_filter_own_step(roof_comb(o1, o2, a, b), mk(a * x.v() + b * y.v())) == roof_comb(roofing_filter_own_step(o1, x), roofing_filter_own_step(o2, y), a, b),
            roof_same(roofing_filter_own_step(o1, x), roofing_filter_own_step(o2, y)),
            roofing_filter_own_step(o1, x).n == o1.n && roofing_filter_own_step(o1, x).alpha == o1.alpha
{
    lemma_roof_hp_linear(o1, o2, x, y, a, b);
    let c = roof_comb(o1, o2, a, b); let z = mk(a * x.v() + b * y.v());
    let c0 = RoofingFilterOwn { n: o1.n, k: o1.k, alpha: o1.alpha, x1: c.x1, x2: c.x2, h1: c.h1, h2: c.h2, ss: o1.ss };
    assert(roof_hp(c, z) == roof_hp(c0, z));
    let p = mk(roof_hp(o1, x)); let q = mk(roof_hp(o2, y));
    lemma_super_smoother_comb_step(o1.ss.1, o2.ss.1, p, q, a, b);
}
pub proof fn lemma_roofing_filter_superposition(i: RoofingFilterOwn, h1: Seq<T>, h2: Seq<T>, a: real, b: real)
    requires h1.len() == h2.len(), i.x1 == mk(0real), i.x2 == mk(0real), i.h1 == mk(0real), i.h2 == mk(0real),
             i.ss.0.is_none(), i.ss.1.f1 == mk(0real), i.ss.1.f2 == mk(0real), i.ss.1.x1 == mk(0real)
    ensures ({ let s1 = run::<RoofingFilter<Echo>>((None::<T>, i), h1); let s2 = run::<RoofingFilter<Echo>>((None::<T>, i), h2);
               let s = run::<RoofingFilter<Echo>>((None::<T>, i), lin(h1, h2, a, b));
               roof_same(s1.1, s2.1) && s1.1.n == i.n && s1.1.alpha == i.alpha && s.1 == roof_comb(s1.1, s2.1, a, b)
               && (match (RoofingFilter::<Echo>::out(s1), RoofingFilter::<Echo>::out(s2), RoofingFilter::<Echo>::out(s)) {
                     (Some(p), Some(q), Some(r)) => r.v() == a * p.v() + b * q.v(), (None, None, None) => true, _ => false }) })
    decreases h1.len()
{
    if h1.len() > 0 {
        lemma_roofing_filter_superposition(i, h1.drop_last(), h2.drop_last(), a, b);
        lemma_lin_drop_last(h1, h2, a, b);
        let s1 = run::<RoofingFilter<Echo>>((None::<T>, i), h1.drop_last()); let s2 = run::<RoofingFilter<Echo>>((None::<T>, i), h2.drop_last());
        lemma_roofing_filter_comb_step(s1.1, s2.1, h1.last(), h2.last(), a, b);
    } else {
        assert(lin(h1, h2, a, b) =~= Seq::<T>::empty());
        assert(a * 0real + b * 0real == 0real) by(nonlinear_arith);
    }
}
