// C02 (history level): feeding any history h to a windowed view over Echo leaves exactly the last min(|h|, N) values of h
// in its abstract window; together with the `out` contracts this is the statement "over exactly the N most recent values".

// the last min(|h|, n) values of h
pub open spec fn win(h: Seq<T>, n: nat) -> Seq<T> {
    if h.len() <= n { h } else { h.subrange(h.len() - n, h.len() as int) }
}
pub proof fn lemma_win_step(h: Seq<T>, n: nat)
    requires h.len() > 0, n >= 1
    ensures wpush(win(h.drop_last(), n), h.last(), n) =~= win(h, n)
{
    let g = h.drop_last();
    if g.len() < n {
        assert(win(g, n) == g);
        assert(g.push(h.last()) =~= h);
    } else if g.len() == n {
        assert(win(g, n) == g);
        assert(g.drop_first().push(h.last()) =~= h.subrange(h.len() - n, h.len() as int));
    } else {
        let w = g.subrange(g.len() - n, g.len() as int);
        assert(w.drop_first().push(h.last()) =~= h.subrange(h.len() - n, h.len() as int));
    }
}
// two histories that agree on their last k >= n values have the same window
pub proof fn lemma_win_suffix(h1: Seq<T>, h2: Seq<T>, n: nat, k: nat)
    requires k >= n, h1.len() >= k, h2.len() >= k,
        h1.subrange(h1.len() - k, h1.len() as int) == h2.subrange(h2.len() - k, h2.len() as int),
    ensures win(h1, n) == win(h2, n)
{
    let s1 = h1.subrange(h1.len() - k, h1.len() as int); let s2 = h2.subrange(h2.len() - k, h2.len() as int);
    assert(win(h1, n) =~= win(s1, n));
    assert(win(h2, n) =~= win(s2, n));
}
pub open spec fn echo_of(h: Seq<T>) -> Option<T> { if h.len() == 0 { None } else { Some(h.last()) } }

pub proof fn lemma_run_sma(h: Seq<T>, n: nat)
    requires n >= 1
    ensures ({ let s = run::<Sma<Echo>>((None::<T>, SmaOwn { n: n, w: Seq::<T>::empty() }), h);
               s.0 == echo_of(h) && s.1 == SmaOwn { n: n, w: win(h, n) } })
    decreases h.len()
{
    if h.len() > 0 { lemma_run_sma(h.drop_last(), n); lemma_win_step(h, n); }
    else { assert(win(h, n) =~= Seq::<T>::empty()); }
}
// Sma: arithmetic mean of exactly the last N values once N values have been delivered, silent before
pub proof fn lemma_sma_closed_form(h: Seq<T>, n: nat)
    requires n >= 1
    ensures Sma::<Echo>::out(run::<Sma<Echo>>((None::<T>, SmaOwn { n: n, w: Seq::<T>::empty() }), h))
        == (if h.len() < n { None::<T> } else { Some(mk(rdiv(sum(win(h, n)), n as real))) })
{
    lemma_run_sma(h, n);
}

pub proof fn lemma_run_cumulative(h: Seq<T>, n: nat)
    requires n >= 1
    ensures ({ let s = run::<Cumulative<Echo>>((None::<T>, CumulativeOwn { n: n, w: Seq::<T>::empty() }), h);
               s.0 == echo_of(h) && s.1 == CumulativeOwn { n: n, w: win(h, n) } })
    decreases h.len()
{
    if h.len() > 0 { lemma_run_cumulative(h.drop_last(), n); lemma_win_step(h, n); }
    else { assert(win(h, n) =~= Seq::<T>::empty()); }
}
pub proof fn lemma_cumulative_closed_form(h: Seq<T>, n: nat)
    requires n >= 1
    ensures Cumulative::<Echo>::out(run::<Cumulative<Echo>>((None::<T>, CumulativeOwn { n: n, w: Seq::<T>::empty() }), h))
        == (if h.len() == 0 { None::<T> } else { Some(mk(sum(win(h, n)))) })
{
    lemma_run_cumulative(h, n);
}

pub proof fn lemma_run_min(h: Seq<T>, n: nat)
    requires n >= 1
    ensures ({ let s = run::<Min<Echo>>((None::<T>, MinOwn { n: n, w: Seq::<T>::empty() }), h);
               s.0 == echo_of(h) && s.1 == MinOwn { n: n, w: win(h, n) } })
    decreases h.len()
{
    if h.len() > 0 { lemma_run_min(h.drop_last(), n); lemma_win_step(h, n); }
    else { assert(win(h, n) =~= Seq::<T>::empty()); }
}
pub proof fn lemma_min_closed_form(h: Seq<T>, n: nat)
    requires n >= 1
    ensures Min::<Echo>::out(run::<Min<Echo>>((None::<T>, MinOwn { n: n, w: Seq::<T>::empty() }), h))
        == (if h.len() == 0 { None::<T> } else { Some(mk(smin(win(h, n)))) })
{
    lemma_run_min(h, n);
}

pub proof fn lemma_run_max(h: Seq<T>, n: nat)
    requires n >= 1
    ensures ({ let s = run::<Max<Echo>>((None::<T>, MaxOwn { n: n, w: Seq::<T>::empty() }), h);
               s.0 == echo_of(h) && s.1 == MaxOwn { n: n, w: win(h, n) } })
    decreases h.len()
{
    if h.len() > 0 { lemma_run_max(h.drop_last(), n); lemma_win_step(h, n); }
    else { assert(win(h, n) =~= Seq::<T>::empty()); }
}
pub proof fn lemma_max_closed_form(h: Seq<T>, n: nat)
    requires n >= 1
    ensures Max::<Echo>::out(run::<Max<Echo>>((None::<T>, MaxOwn { n: n, w: Seq::<T>::empty() }), h))
        == (if h.len() == 0 { None::<T> } else { Some(mk(smax(win(h, n)))) })
{
    lemma_run_max(h, n);
}

pub proof fn lemma_run_welford_online(h: Seq<T>, n: nat)
    requires n >= 1
    ensures ({ let s = run::<WelfordOnline<Echo>>((None::<T>, WelfordOnlineOwn { n: n, w: Seq::<T>::empty() }), h);
               s.0 == echo_of(h) && s.1 == WelfordOnlineOwn { n: n, w: win(h, n) } })
    decreases h.len()
{
    if h.len() > 0 { lemma_run_welford_online(h.drop_last(), n); lemma_win_step(h, n); }
    else { assert(win(h, n) =~= Seq::<T>::empty()); }
}
pub proof fn lemma_welford_online_closed_form(h: Seq<T>, n: nat)
    requires n >= 1
    ensures WelfordOnline::<Echo>::out(run::<WelfordOnline<Echo>>((None::<T>, WelfordOnlineOwn { n: n, w: Seq::<T>::empty() }), h))
        == (if win(h, n).len() + 1 < n { None::<T> } else if wo_variance(win(h, n)) <= 0real { Some(mk(0real)) } else { Some(mk(r_sqrt(wo_variance(win(h, n))))) })
{
    lemma_run_welford_online(h, n);
}

pub proof fn lemma_run_hl_normalizer(h: Seq<T>, n: nat)
    requires n >= 1
    ensures ({ let s = run::<HLNormalizer<Echo>>((None::<T>, HLNormalizerOwn { n: n, w: Seq::<T>::empty() }), h);
               s.0 == echo_of(h) && s.1 == HLNormalizerOwn { n: n, w: win(h, n) } })
    decreases h.len()
{
    if h.len() > 0 { lemma_run_hl_normalizer(h.drop_last(), n); lemma_win_step(h, n); }
    else { assert(win(h, n) =~= Seq::<T>::empty()); }
}
pub proof fn lemma_hl_normalizer_closed_form(h: Seq<T>, n: nat)
    requires n >= 1
    ensures HLNormalizer::<Echo>::out(run::<HLNormalizer<Echo>>((None::<T>, HLNormalizerOwn { n: n, w: Seq::<T>::empty() }), h))
        == (Some(mk(hl_out(win(h, n)))))
{
    lemma_run_hl_normalizer(h, n);
}

pub proof fn lemma_run_center_of_gravity(h: Seq<T>, n: nat)
    requires n >= 1
    ensures ({ let s = run::<CenterOfGravity<Echo>>((None::<T>, CenterOfGravityOwn { n: n, w: Seq::<T>::empty() }), h);
               s.0 == echo_of(h) && s.1 == CenterOfGravityOwn { n: n, w: win(h, n) } })
    decreases h.len()
{
    if h.len() > 0 { lemma_run_center_of_gravity(h.drop_last(), n); lemma_win_step(h, n); }
    else { assert(win(h, n) =~= Seq::<T>::empty()); }
}
pub proof fn lemma_center_of_gravity_closed_form(h: Seq<T>, n: nat)
    requires n >= 1
    ensures CenterOfGravity::<Echo>::out(run::<CenterOfGravity<Echo>>((None::<T>, CenterOfGravityOwn { n: n, w: Seq::<T>::empty() }), h))
        == (if h.len() == 0 { None::<T> } else { Some(mk(cog_of(win(h, n)))) })
{
    lemma_run_center_of_gravity(h, n);
}

pub proof fn lemma_run_cti(h: Seq<T>, n: nat)
    requires n >= 1
    ensures ({ let s = run::<CorrelationTrendIndicator<Echo>>((None::<T>, CorrelationTrendIndicatorOwn { n: n, w: Seq::<T>::empty() }), h);
               s.0 == echo_of(h) && s.1 == CorrelationTrendIndicatorOwn { n: n, w: win(h, n) } })
    decreases h.len()
{
    if h.len() > 0 { lemma_run_cti(h.drop_last(), n); lemma_win_step(h, n); }
    else { assert(win(h, n) =~= Seq::<T>::empty()); }
}
pub proof fn lemma_cti_closed_form(h: Seq<T>, n: nat)
    requires n >= 1
    ensures CorrelationTrendIndicator::<Echo>::out(run::<CorrelationTrendIndicator<Echo>>((None::<T>, CorrelationTrendIndicatorOwn { n: n, w: Seq::<T>::empty() }), h))
        == (Some(mk(cti_of(win(h, n), n as real))))
{
    lemma_run_cti(h, n);
}
// ---- views with a predecessor / held component
pub open spec fn pred_of(h: Seq<T>, n: nat) -> T { if h.len() == 0 { mk(0real) } else if h.len() <= n { h[0] } else { h[h.len() - n - 1] } }
pub proof fn lemma_pred_step(h: Seq<T>, n: nat)
    requires h.len() > 0, n >= 1
    ensures rsi_pred(win(h.drop_last(), n), pred_of(h.drop_last(), n), h.last(), n) == pred_of(h, n)
{
    let g = h.drop_last();
    if g.len() == 0 { assert(h[0] == h.last()); }
    else if g.len() < n { assert(g[0] == h[0]); }
    else if g.len() == n { assert(win(g, n)[0] == g[0]); assert(g[0] == h[0]); assert(h[h.len() - n - 1] == h[0]); }
    else { assert(win(g, n)[0] == g[g.len() - n]); assert(g[g.len() - n] == h[h.len() - n - 1]); }
}
pub proof fn lemma_run_rsi(h: Seq<T>, n: nat)
    requires n >= 1
    ensures ({ let s = run::<Rsi<Echo>>((None::<T>, RsiOwn { n: n, w: Seq::<T>::empty(), pred: mk(0real) }), h);
               s.0 == echo_of(h) && s.1 == RsiOwn { n: n, w: win(h, n), pred: pred_of(h, n) } })
    decreases h.len()
{
    if h.len() > 0 { lemma_run_rsi(h.drop_last(), n); lemma_win_step(h, n); lemma_pred_step(h, n); }
    else { assert(win(h, n) =~= Seq::<T>::empty()); }
}
// Rsi == 100 G/(G+L) over the N most recent values (100 when L == 0), from the N-th value on  (C05 at history level)
pub proof fn lemma_rsi_closed_form(h: Seq<T>, n: nat)
    requires n >= 1
    ensures Rsi::<Echo>::out(run::<Rsi<Echo>>((None::<T>, RsiOwn { n: n, w: Seq::<T>::empty(), pred: mk(0real) }), h))
        == (if h.len() < n { None::<T> } else { Some(mk(rsi_of(win(h, n), pred_of(h, n)))) })
{ lemma_run_rsi(h, n); }
pub proof fn lemma_run_my_rsi_window(h: Seq<T>, n: nat, held0: T)
    requires n >= 1
    ensures ({ let s = run::<MyRSI<Echo>>((None::<T>, MyRSIOwn { n: n, w: Seq::<T>::empty(), pred: mk(0real), held: held0 }), h);
               s.0 == echo_of(h) && s.1.n == n && s.1.w == win(h, n) && s.1.pred == pred_of(h, n) })
    decreases h.len()
{
    if h.len() > 0 { lemma_run_my_rsi_window(h.drop_last(), n, held0); lemma_win_step(h, n); lemma_pred_step(h, n); }
    else { assert(win(h, n) =~= Seq::<T>::empty()); }
}
// MyRSI == (G-L)/(G+L) over the N most recent values whenever G+L != 0 at the last step
pub proof fn lemma_my_rsi_closed_form(h: Seq<T>, n: nat)
    requires n >= 1, h.len() >= n, gains(win(h, n), pred_of(h, n)) + losses(win(h, n), pred_of(h, n)) != 0real
    ensures MyRSI::<Echo>::out(run::<MyRSI<Echo>>((None::<T>, MyRSIOwn { n: n, w: Seq::<T>::empty(), pred: mk(0real), held: mk(0real) }), h))
        == Some(mk(rdiv(gains(win(h, n), pred_of(h, n)) - losses(win(h, n), pred_of(h, n)), gains(win(h, n), pred_of(h, n)) + losses(win(h, n), pred_of(h, n)))))
{
    lemma_run_my_rsi_window(h, n, mk(0real));
    lemma_run_my_rsi_window(h.drop_last(), n, mk(0real));
    lemma_win_step(h, n); lemma_pred_step(h, n);
}
// NET: the output is Kendall's tau of the window whenever the window holds at least two values
pub proof fn lemma_run_net(h: Seq<T>, n: nat)
    requires n >= 1
    ensures ({ let s = run::<NoiseEliminationTechnology<Echo>>((None::<T>, NoiseEliminationTechnologyOwn { n: n, w: Seq::<T>::empty(), o: None::<T> }), h);
               s.0 == echo_of(h) && s.1.n == n && s.1.w == win(h, n) && (win(h, n).len() >= 2 ==> s.1.o == Some(mk(net_of(win(h, n))))) })
    decreases h.len()
{
    if h.len() > 0 { lemma_run_net(h.drop_last(), n); lemma_win_step(h, n); }
    else { assert(win(h, n) =~= Seq::<T>::empty()); }
}
// Vst / Vsct: the embedded Welford state is the Welford state of the same history
pub proof fn lemma_run_vst(h: Seq<T>, n: nat)
    requires n >= 1
    ensures ({ let s = run::<Vst<Echo>>((None::<T>, VstOwn { last: mk(0real), wo: (None::<T>, WelfordOnlineOwn { n: n, w: Seq::<T>::empty() }) }), h);
               s.0 == echo_of(h) && s.1.wo == (echo_of(h), WelfordOnlineOwn { n: n, w: win(h, n) }) && (h.len() > 0 ==> s.1.last == h.last()) })
    decreases h.len()
{
    if h.len() > 0 { lemma_run_vst(h.drop_last(), n); lemma_win_step(h, n); }
    else { assert(win(h, n) =~= Seq::<T>::empty()); }
}
pub proof fn lemma_run_vsct(h: Seq<T>, n: nat)
    requires n >= 1
    ensures ({ let s = run::<Vsct<Echo>>((None::<T>, VsctOwn { last: mk(0real), wo: (None::<T>, WelfordOnlineOwn { n: n, w: Seq::<T>::empty() }) }), h);
               s.0 == echo_of(h) && s.1.wo == (echo_of(h), WelfordOnlineOwn { n: n, w: win(h, n) }) && (h.len() > 0 ==> s.1.last == h.last()) })
    decreases h.len()
{
    if h.len() > 0 { lemma_run_vsct(h.drop_last(), n); lemma_win_step(h, n); }
    else { assert(win(h, n) =~= Seq::<T>::empty()); }
}
// Roc: base = x_{t-N} (the first value while fewer than N+1 values exist)
pub open spec fn roc_base_of(h: Seq<T>, n: nat) -> Option<T> { if h.len() == 0 { None } else if h.len() <= n { Some(h[0]) } else { Some(h[h.len() - n - 1]) } }
pub proof fn lemma_run_roc(h: Seq<T>, n: nat)
    requires n >= 1
    ensures ({ let s = run::<Roc<Echo>>((None::<T>, RocOwn { n: n, w: Seq::<T>::empty(), base: None::<T>, o: None::<T> }), h);
               s.0 == echo_of(h) && s.1.n == n && s.1.w == win(h, n) && s.1.base == roc_base_of(h, n)
               && (h.len() > 0 && roc_base_of(h, n).unwrap().v() != 0real ==>
                    s.1.o == Some(mk(rdiv(h.last().v() - roc_base_of(h, n).unwrap().v(), roc_base_of(h, n).unwrap().v()) * 100real))) })
    decreases h.len()
{
    if h.len() > 0 {
        let g = h.drop_last();
        lemma_run_roc(g, n); lemma_win_step(h, n);
        if g.len() == 0 { assert(h[0] == h.last()); }
        else if g.len() < n { assert(g[0] == h[0]); }
        else if g.len() == n { assert(win(g, n)[0] == g[0]); assert(g[0] == h[0]); }
        else { assert(win(g, n)[0] == g[g.len() - n]); assert(g[g.len() - n] == h[h.len() - n - 1]); }
    } else { assert(win(h, n) =~= Seq::<T>::empty()); }
}
