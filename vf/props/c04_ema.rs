// C04, Ema (default alpha): the recursion e_0 = x_0, e_t = w x_t + (1 - w) e_(t-1) with 0 < w <= 1 is convex, monotone and affine-equivariant
// ---------- Ema: e_0 = x_0, e_t = w x_t + (1 - w) e_(t-1),  w = alpha/(N+1) ----------
pub proof fn lemma_ema_weight(n: nat)
    requires n >= 1
    ensures 0real < rdiv(2real, 1real + (n as real)) <= 1real
{ lemma_rdiv_sign(2real, 1real + (n as real)); }
// one step of the recursion stays between the previous value and the new input (a convex combination), hence within the
// closed interval spanned by all values so far; it is monotone in both arguments and commutes with x -> a x + b
pub proof fn lemma_ema_step_convex(w: real, e: real, x: real, lo: real, hi: real)
    requires 0real < w <= 1real, lo <= e <= hi, lo <= x <= hi
    ensures lo <= x * w + e * (1real - w) <= hi
{
    assert(x * w + e * (1real - w) >= lo * w + lo * (1real - w)) by(nonlinear_arith) requires 0real < w <= 1real, x >= lo, e >= lo;
    assert(x * w + e * (1real - w) <= hi * w + hi * (1real - w)) by(nonlinear_arith) requires 0real < w <= 1real, x <= hi, e <= hi;
    assert(lo * w + lo * (1real - w) == lo) by(nonlinear_arith);
    assert(hi * w + hi * (1real - w) == hi) by(nonlinear_arith);
}
pub proof fn lemma_ema_step_monotone(w: real, e1: real, x1: real, e2: real, x2: real)
    requires 0real < w <= 1real, e1 <= e2, x1 <= x2
    ensures x1 * w + e1 * (1real - w) <= x2 * w + e2 * (1real - w)
{
    assert(x1 * w <= x2 * w) by(nonlinear_arith) requires x1 <= x2, w > 0real;
    assert(e1 * (1real - w) <= e2 * (1real - w)) by(nonlinear_arith) requires e1 <= e2, w <= 1real;
}
pub proof fn lemma_ema_step_affine(w: real, e: real, x: real, a: real, b: real)
    ensures (a * x + b) * w + (a * e + b) * (1real - w) == a * (x * w + e * (1real - w)) + b
{
    lemma_affine_mix(a, b, x, e, w);
}
// the real code's own-step IS that recursion (by the E3 contract), instantiated here for the default alpha = 2
pub proof fn lemma_ema_own_step_is_recursion(o: EmaOwn, y: T)
    requires o.alpha.v() == 2real, o.n >= 1
    ensures ({ let w = rdiv(2real, 1real + (o.n as real));
               ema_own_step(o, y).e.v() == (if o.k == 0 { y.v() } else { y.v() * w + o.e.v() * (1real - w) }) && ema_own_step(o, y).k == o.k + 1 && 0real < w <= 1real })
{ lemma_ema_weight(o.n); }

