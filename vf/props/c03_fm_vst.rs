// C03 for this view: two histories that agree on their last K values give the same output
use crate::props::c00_window::*;
use crate::props::c03_0_suffix::*;
use crate::props::c02_h_vst::*;
// Vst / Vsct: K = N (the embedded Welford window and the newest value)
pub proof fn lemma_finite_memory_vst(h1: Seq<T>, h2: Seq<T>, n: nat)
    requires n >= 1, h1.len() >= n, h2.len() >= n, suffix(h1, n) == suffix(h2, n)
    ensures Vst::<Echo>::out(run::<Vst<Echo>>((None::<T>, VstOwn { last: mk(0real), wo: (None::<T>, WelfordOnlineOwn { n: n, w: Seq::<T>::empty() }) }), h1))
         == Vst::<Echo>::out(run::<Vst<Echo>>((None::<T>, VstOwn { last: mk(0real), wo: (None::<T>, WelfordOnlineOwn { n: n, w: Seq::<T>::empty() }) }), h2))
{
    lemma_run_vst(h1, n); lemma_run_vst(h2, n); lemma_win_suffix(h1, h2, n, n);
    assert(suffix(h1, n).last() == h1.last()); assert(suffix(h2, n).last() == h2.last());
}
