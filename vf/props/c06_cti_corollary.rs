// C06 corollary: CTI is +1 on a linearly increasing full window x_i = c + a i (a > 0) and -1 on a linearly decreasing one.
// (For a merely monotone window Pearson's r is below 1, e.g. [1,2,4] -> 0.98: the statement's wording is stronger than its own main clause.)
use crate::props::c00_affine::*;
use crate::props::c07_cti_bound::*;
use crate::props::c12_cti::*;

pub proof fn lemma_index_closed_forms(k: nat)
    ensures isum(k) * 2real == (k as real) * ((k as real) - 1real), isq(k) * 6real == ((k as real) - 1real) * (k as real) * (2real * (k as real) - 1real)
    decreases k
{
    if k > 0 {
        lemma_index_closed_forms((k - 1) as nat);
        let j = (k - 1) as real;
        assert(k as real == j + 1real);
        lemma_isum_step(j, isum((k - 1) as nat));
        lemma_isq_step(j, isq((k - 1) as nat));
        assert((j + 1real) * j == (j + 1real) * ((j + 1real) - 1real)) by(nonlinear_arith);
        assert(j * (j + 1real) * (2real * j + 1real) == ((j + 1real) - 1real) * (j + 1real) * (2real * (j + 1real) - 1real)) by(nonlinear_arith);
    } else {
        assert(0real * (0real - 1real) == 0real && (0real - 1real) * 0real * (2real * 0real - 1real) == 0real) by(nonlinear_arith);
    }
}
pub proof fn lemma_ixsum_idx(k: nat) ensures ixsum(idx(k)) == isq(k)
    decreases k
{
    if k > 0 {
        lemma_ixsum_idx((k - 1) as nat);
        assert(idx(k).drop_last() =~= idx((k - 1) as nat));
        assert(idx(k).last().v() == ((k - 1) as real));
    } else { assert(idx(0) =~= Seq::<T>::empty()); }
}
pub proof fn lemma_cti_of_index_ramp(k: nat)
    requires k >= 2
    ensures cti_of(idx(k), k as real) == 1real
{
    let n = k as real; let w = idx(k);
    lemma_idx_sums(k); lemma_ixsum_idx(k); lemma_index_closed_forms(k);
    lemma_index_spread_positive(n, isum(k), isq(k));
    let vy = n * isq(k) - isum(k) * isum(k);
    assert(cti_vx(w, n) == vy && cti_vy(w, n) == vy && cti_cov(w, n) == vy);
    lemma_sqrt_unique(vy, vy * vy);
    lemma_rdiv_sign(vy, vy);
}
pub proof fn lemma_cti_linear_window(k: nat, a: real, c: real)
    requires k >= 2, a > 0real
    ensures cti_of(affine(idx(k), a, c), k as real) == 1real, cti_of(affine(affine(idx(k), a, c), -1real, 0real), k as real) == -1real
{
    lemma_cti_of_index_ramp(k);
    lemma_cti_affine_invariant(idx(k), a, c);
    lemma_cti_negate(affine(idx(k), a, c));
}
