// C12, normalised indicators: MyRSI (scale, negation), Vst (scale), Vsct (affine), EFT normalisation (affine), CTI (affine on a full window)
use crate::props::c00_affine::*;
use crate::props::c04_averages::*;
use crate::props::c12_invariance::*;
use crate::props::c12_scale_more::*;

// MyRSI = (G - L)/(G + L): unchanged by scaling (G, L scale together), negated by negation (G and L swap)
pub proof fn lemma_ratio_scale(g: real, l: real, a: real)
    requires a > 0real, g + l != 0real
    ensures rdiv(a * g - a * l, a * g + a * l) == rdiv(g - l, g + l)
{
    let q = rdiv(g - l, g + l); lemma_rdiv_mul(g - l, g + l);
    assert(a * g + a * l == a * (g + l)) by(nonlinear_arith);
    assert(a * (g + l) != 0real) by(nonlinear_arith) requires a > 0real, g + l != 0real;
    assert(q * (a * (g + l)) == a * g - a * l) by(nonlinear_arith) requires q * (g + l) == g - l;
    lemma_rdiv_unique(q, a * g - a * l, a * g + a * l);
}
pub proof fn lemma_ratio_negate(g: real, l: real)
    requires g + l != 0real
    ensures rdiv(l - g, l + g) == -rdiv(g - l, g + l)
{
    let q = rdiv(g - l, g + l); lemma_rdiv_mul(g - l, g + l);
    assert((-q) * (l + g) == l - g) by(nonlinear_arith) requires q * (g + l) == g - l;
    lemma_rdiv_unique(-q, l - g, l + g);
}
pub proof fn lemma_my_rsi_invariance(w: Seq<T>, pred: T, a: real, b: real)
    requires a > 0real, gains(w, pred) + losses(w, pred) != 0real
    ensures ({ let g = gains(w, pred); let l = losses(w, pred);
               let gs = gains(affine(w, a, b), mk(a * pred.v() + b)); let ls = losses(affine(w, a, b), mk(a * pred.v() + b));
               let gn = gains(affine(w, -1real, 0real), mk(-pred.v())); let ln = losses(affine(w, -1real, 0real), mk(-pred.v()));
               rdiv(gs - ls, gs + ls) == rdiv(g - l, g + l) && rdiv(gn - ln, gn + ln) == -rdiv(g - l, g + l) })
{
    lemma_gl_scale(w, pred, a, b); lemma_gl_negate(w, pred);
    lemma_ratio_scale(gains(w, pred), losses(w, pred), a); lemma_ratio_negate(gains(w, pred), losses(w, pred));
}
pub proof fn lemma_welford_variance_affine(w: Seq<T>, a: real, b: real)
    requires w.len() >= 2
    ensures wo_variance(affine(w, a, b)) == (a * a) * wo_variance(w), wo_mean(affine(w, a, b)) == a * wo_mean(w) + b
{
    lemma_sumsq_affine(w, a, b); lemma_sum_affine(w, a, b);
    let n = w.len() as real; let s = sum(w); let q = sumsq(w);
    lemma_spread_affine(n, s, q, a, b);
    let num = n * q - s * s;
    let m2 = rdiv(num, n); lemma_rdiv_mul(num, n);
    assert(((a * a) * m2) * n == (a * a) * num) by(nonlinear_arith) requires m2 * n == num;
    lemma_rdiv_unique((a * a) * m2, (a * a) * num, n);
    let var = rdiv(m2, n - 1real); lemma_rdiv_mul(m2, n - 1real);
    assert(((a * a) * var) * (n - 1real) == (a * a) * m2) by(nonlinear_arith) requires var * (n - 1real) == m2;
    assert((w.len() - 1) as real == n - 1real);
    lemma_rdiv_unique((a * a) * var, (a * a) * m2, n - 1real);
    lemma_mean_affine(w, a, b);
}
// Vsct(a x + b) == Vsct(x) and Vst(a x) == Vst(x) on a non-degenerate window (variance > 0)
pub proof fn lemma_vsct_affine_invariant(w: Seq<T>, a: real, b: real)
    requires w.len() >= 2, a > 0real, wo_variance(w) > 0real
    ensures ({ let v = affine(w, a, b);
               rdiv(v.last().v() - wo_mean(v), r_sqrt(wo_variance(v))) == rdiv(w.last().v() - wo_mean(w), r_sqrt(wo_variance(w))) })
{
    let v = affine(w, a, b);
    lemma_welford_variance_affine(w, a, b);
    let var = wo_variance(w); let s = r_sqrt(var); let d = w.last().v() - wo_mean(w);
    lemma_sqrt_scale(a, var); lemma_sqrt_pos(var);
    assert(v.last().v() == a * w.last().v() + b);
    assert(v.last().v() - wo_mean(v) == a * d) by(nonlinear_arith) requires v.last().v() == a * w.last().v() + b, wo_mean(v) == a * wo_mean(w) + b, d == w.last().v() - wo_mean(w);
    let q = rdiv(d, s); lemma_rdiv_mul(d, s);
    assert(a * s != 0real) by(nonlinear_arith) requires a > 0real, s > 0real;
    assert(q * (a * s) == a * d) by(nonlinear_arith) requires q * s == d;
    lemma_rdiv_unique(q, a * d, a * s);
}
pub proof fn lemma_vst_scale_invariant(w: Seq<T>, a: real)
    requires w.len() >= 2, a > 0real, wo_variance(w) > 0real
    ensures ({ let v = affine(w, a, 0real); rdiv(v.last().v(), r_sqrt(wo_variance(v))) == rdiv(w.last().v(), r_sqrt(wo_variance(w))) })
{
    let v = affine(w, a, 0real);
    lemma_welford_variance_affine(w, a, 0real);
    let var = wo_variance(w); let s = r_sqrt(var); let x = w.last().v();
    lemma_sqrt_scale(a, var); lemma_sqrt_pos(var);
    assert(v.last().v() == a * x + 0real);
    let q = rdiv(x, s); lemma_rdiv_mul(x, s);
    assert(a * s != 0real) by(nonlinear_arith) requires a > 0real, s > 0real;
    assert(q * (a * s) == a * x) by(nonlinear_arith) requires q * s == x;
    lemma_rdiv_unique(q, a * x, a * s);
}
// EFT: the min-max normalisation is unchanged by x -> a x + b, so the smoother, the clamp and the Fisher recursion see identical values
pub proof fn lemma_eft_norm_affine_invariant(w: Seq<T>, a: real, b: real)
    requires w.len() > 0, a > 0real, smax(w) != smin(w)
    ensures ({ let v = affine(w, a, b); eft_norm(v.last(), smin(v), smax(v)) == eft_norm(w.last(), smin(w), smax(w)) && smax(v) != smin(v) })
{
    let v = affine(w, a, b);
    lemma_smin_affine(w, a, b);
    let lo = smin(w); let hi = smax(w); let y = w.last().v();
    assert(v.last().v() == a * y + b);
    assert(a * hi + b != a * lo + b) by(nonlinear_arith) requires a > 0real, hi != lo;
    let q = rdiv(y - lo, hi - lo); lemma_rdiv_mul(y - lo, hi - lo);
    assert(q * ((a * hi + b) - (a * lo + b)) == (a * y + b) - (a * lo + b)) by(nonlinear_arith) requires q * (hi - lo) == y - lo;
    lemma_rdiv_unique(q, (a * y + b) - (a * lo + b), (a * hi + b) - (a * lo + b));
}
