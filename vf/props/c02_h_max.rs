// C02/C05/C06 at history level for this view (over Echo): abstract window == last N values; closed-form output
use crate::props::c00_window::*;
pub proof fn lemma_run_max(h: Seq<T>, n: nat)
    requires n >= 1
    ensures ({ let s = run::<Max<Echo>>((None::<T>, MaxOwn { n: n, w: Seq::<T>::empty() }), h);
               s.0 == echo_of(h) && s.1 == MaxOwn { n: n, w: win(h, n) } })
    decreases h.len()
{
    if h.len() > 0 { lemma_run_max(h.drop_last(), n); lemma_win_step(h, n); }
    else { assert(win(h, n) =~= Seq::<T>::empty()); }
}
pub proof fn lemma_max_closed_form(h: Seq<T>, n: nat)
    requires n >= 1
    ensures Max::<Echo>::out(run::<Max<Echo>>((None::<T>, MaxOwn { n: n, w: Seq::<T>::empty() }), h))
        == (if h.len() == 0 { None::<T> } else { Some(mk(smax(win(h, n)))) })
{
    lemma_run_max(h, n);
}

