// C12 at whole-history level, continued: MyRSI, Vsct, Vst, WelfordOnline, Roc, BinaryEntropy (views over Echo; non-degenerate windows)
use crate::props::c00_window::*;
use crate::props::c00_affine::*;
use crate::props::c02_h_vsct::*;
use crate::props::c02_h_vst::*;
use crate::props::c02_h_welford_online::*;
use crate::props::c02_h_roc::*;
use crate::props::c02_h_binary_entropy::*;
use crate::props::c05_h_my_rsi::*;
use crate::props::c12_normalised::*;
use crate::props::c12_invariance::*;
use crate::props::c12_scale_more::*;
use crate::props::c12_negation::*;
use crate::props::c12_history::*;

// MyRSI: unchanged by a x + b (a > 0), negated by negation, on a window that is not flat
pub proof fn lemma_my_rsi_history(h: Seq<T>, n: nat, a: real, b: real)
    requires n >= 1, a > 0real, h.len() >= n, gains(win(h, n), pred_of(h, n)) + losses(win(h, n), pred_of(h, n)) != 0real
    ensures ({ let i = (None::<T>, MyRSIOwn { n: n, w: Seq::<T>::empty(), pred: mk(0real), held: mk(0real) });
               MyRSI::<Echo>::out(run::<MyRSI<Echo>>(i, affine(h, a, b))) == MyRSI::<Echo>::out(run::<MyRSI<Echo>>(i, h))
               && opt_rel(MyRSI::<Echo>::out(run::<MyRSI<Echo>>(i, h)), MyRSI::<Echo>::out(run::<MyRSI<Echo>>(i, negated(h))), |x: real| -x) })
{
    let w = win(h, n); let p = pred_of(h, n);
    lemma_win_affine(h, n, a, b); lemma_win_affine(h, n, -1real, 0real);
    lemma_my_rsi_invariance(w, p, a, b);
    lemma_gl_scale(w, p, a, b); lemma_gl_negate(w, p);
    assert(mk(-1real * p.v() + 0real) == mk(-p.v()));
    assert(a * gains(w, p) + a * losses(w, p) != 0real) by(nonlinear_arith) requires a > 0real, gains(w, p) + losses(w, p) != 0real;
    lemma_my_rsi_closed_form(h, n); lemma_my_rsi_closed_form(affine(h, a, b), n); lemma_my_rsi_closed_form(negated(h), n);
}
// Vsct: unchanged by a x + b, negated by negation;  Vst: unchanged by a x, negated by negation  (window variance > 0)
pub proof fn lemma_var_pos_affine(w: Seq<T>, a: real, b: real)
    requires wo_variance(w) > 0real, a != 0real
    ensures w.len() >= 2, wo_variance(affine(w, a, b)) > 0real, r_sqrt(wo_variance(affine(w, a, b))) > 0real, r_sqrt(wo_variance(w)) > 0real
{
    lemma_welford_variance_affine(w, a, b);
    assert((a * a) * wo_variance(w) > 0real) by(nonlinear_arith) requires a != 0real, wo_variance(w) > 0real;
    lemma_sqrt_pos(wo_variance(w)); lemma_sqrt_pos(wo_variance(affine(w, a, b)));
}
pub proof fn lemma_vsct_history(h: Seq<T>, n: nat, a: real, b: real)
    requires n >= 1, a > 0real, h.len() > 0, wo_variance(win(h, n)) > 0real
    ensures ({ let i = (None::<T>, VsctOwn { last: mk(0real), wo: (None::<T>, WelfordOnlineOwn { n: n, w: Seq::<T>::empty() }) });
               Vsct::<Echo>::out(run::<Vsct<Echo>>(i, affine(h, a, b))) == Vsct::<Echo>::out(run::<Vsct<Echo>>(i, h))
               && opt_rel(Vsct::<Echo>::out(run::<Vsct<Echo>>(i, h)), Vsct::<Echo>::out(run::<Vsct<Echo>>(i, negated(h))), |x: real| -x) })
{
    let w = win(h, n);
    lemma_run_vsct(h, n); lemma_run_vsct(affine(h, a, b), n); lemma_run_vsct(negated(h), n);
    lemma_win_affine(h, n, a, b); lemma_win_affine(h, n, -1real, 0real);
    lemma_var_pos_affine(w, a, b); lemma_var_pos_affine(w, -1real, 0real);
    lemma_vsct_affine_invariant(w, a, b); lemma_vsct_vst_negate(w);
    assert(w.last() == h.last());
    assert(affine(w, a, b).last() == affine(h, a, b).last());
    assert(negated(w).last() == negated(h).last());
}
pub proof fn lemma_vst_history(h: Seq<T>, n: nat, a: real)
    requires n >= 1, a > 0real, h.len() > 0, wo_variance(win(h, n)) > 0real
    ensures ({ let i = (None::<T>, VstOwn { last: mk(0real), wo: (None::<T>, WelfordOnlineOwn { n: n, w: Seq::<T>::empty() }) });
               Vst::<Echo>::out(run::<Vst<Echo>>(i, affine(h, a, 0real))) == Vst::<Echo>::out(run::<Vst<Echo>>(i, h))
               && opt_rel(Vst::<Echo>::out(run::<Vst<Echo>>(i, h)), Vst::<Echo>::out(run::<Vst<Echo>>(i, negated(h))), |x: real| -x) })
{
    let w = win(h, n);
    lemma_run_vst(h, n); lemma_run_vst(affine(h, a, 0real), n); lemma_run_vst(negated(h), n);
    lemma_win_affine(h, n, a, 0real); lemma_win_affine(h, n, -1real, 0real);
    lemma_var_pos_affine(w, a, 0real); lemma_var_pos_affine(w, -1real, 0real);
    lemma_vst_scale_invariant(w, a); lemma_vsct_vst_negate(w);
    assert(w.last() == h.last());
    assert(affine(w, a, 0real).last() == affine(h, a, 0real).last());
    assert(negated(w).last() == negated(h).last());
}
// WelfordOnline: the windowed standard deviation scales with a
pub proof fn lemma_welford_online_history_scale(h: Seq<T>, n: nat, a: real)
    requires n >= 1, a > 0real
    ensures ({ let i = (None::<T>, WelfordOnlineOwn { n: n, w: Seq::<T>::empty() });
               opt_rel(WelfordOnline::<Echo>::out(run::<WelfordOnline<Echo>>(i, h)), WelfordOnline::<Echo>::out(run::<WelfordOnline<Echo>>(i, affine(h, a, 0real))), |x: real| a * x) })
{
    let w = win(h, n);
    lemma_welford_online_closed_form(h, n); lemma_welford_online_closed_form(affine(h, a, 0real), n);
    lemma_win_affine(h, n, a, 0real);
    assert(a * 0real == 0real) by(nonlinear_arith);
    if w.len() >= 2 {
        lemma_welford_variance_affine(w, a, 0real);
        let v = wo_variance(w);
        if v > 0real {
            assert((a * a) * v > 0real) by(nonlinear_arith) requires a > 0real, v > 0real;
            lemma_sqrt_scale(a, v);
        } else {
            assert((a * a) * v <= 0real) by(nonlinear_arith) requires a > 0real, v <= 0real;
        }
    }
}
// Roc: 100 (x_t - x_(t-N)) / x_(t-N) is unchanged by a x when the base is not zero
pub proof fn lemma_roc_history_scale(h: Seq<T>, n: nat, a: real)
    requires n >= 1, a > 0real, h.len() > 0, roc_base_of(h, n).unwrap().v() != 0real
    ensures ({ let i = (None::<T>, RocOwn { n: n, w: Seq::<T>::empty(), base: None::<T>, o: None::<T> });
               Roc::<Echo>::out(run::<Roc<Echo>>(i, affine(h, a, 0real))) == Roc::<Echo>::out(run::<Roc<Echo>>(i, h)) })
{
    lemma_run_roc(h, n); lemma_run_roc(affine(h, a, 0real), n);
    let b = roc_base_of(h, n).unwrap().v(); let x = h.last().v();
    assert(roc_base_of(affine(h, a, 0real), n).unwrap().v() == a * b + 0real);
    assert(affine(h, a, 0real).last().v() == a * x + 0real);
    assert(a * b != 0real) by(nonlinear_arith) requires a > 0real, b != 0real;
    lemma_roc_scale(x, b, a);
}
// BinaryEntropy: only the signs of the window values matter
pub proof fn lemma_binary_entropy_history_scale(h: Seq<T>, n: nat, a: real)
    requires n >= 1, a > 0real, h.len() > 0
    ensures ({ let i = (None::<T>, BinaryEntropyOwn { n: n, w: Seq::<T>::empty() });
               BinaryEntropy::<Echo>::out(run::<BinaryEntropy<Echo>>(i, affine(h, a, 0real))) == BinaryEntropy::<Echo>::out(run::<BinaryEntropy<Echo>>(i, h)) })
{
    lemma_binary_entropy_closed_form(h, n); lemma_binary_entropy_closed_form(affine(h, a, 0real), n);
    assert(rwin(affine(h, a, 0real), n) =~= affine(rwin(h, n), a, 0real));
    lemma_nonneg_count_scale(rwin(h, n), a);
}
