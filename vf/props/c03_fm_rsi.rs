// C03 for this view: two histories that agree on their last K values give the same output
use crate::props::c00_window::*;
use crate::props::c03_0_suffix::*;
use crate::props::c05_h_rsi::*;
pub proof fn lemma_finite_memory_rsi(h1: Seq<T>, h2: Seq<T>, n: nat)
    requires n >= 1, h1.len() >= n + 1, h2.len() >= n + 1, suffix(h1, n + 1) == suffix(h2, n + 1)
    ensures Rsi::<Echo>::out(run::<Rsi<Echo>>((None::<T>, RsiOwn { n: n, w: Seq::<T>::empty(), pred: mk(0real) }), h1)) == Rsi::<Echo>::out(run::<Rsi<Echo>>((None::<T>, RsiOwn { n: n, w: Seq::<T>::empty(), pred: mk(0real) }), h2))
{
    lemma_run_rsi(h1, n); lemma_run_rsi(h2, n);
    lemma_win_suffix(h1, h2, n, n + 1); lemma_pred_suffix(h1, h2, n);
}
