// C02/C05/C06 at history level for this view (over Echo): abstract window == last N values; closed-form output
use crate::props::c00_window::*;
// Vst / Vsct: the embedded Welford state is the Welford state of the same history
pub proof fn lemma_run_vst(h: Seq<T>, n: nat)
    requires n >= 1
    ensures ({ let s = run::<Vst<Echo>>((None::<T>, VstOwn { last: mk(0real), wo: (None::<T>, WelfordOnlineOwn { n: n, w: Seq::<T>::empty() }) }), h);
               s.0 == echo_of(h) && s.1.wo == (echo_of(h), WelfordOnlineOwn { n: n, w: win(h, n) }) && (h.len() > 0 ==> s.1.last == h.last()) })
    decreases h.len()
{
    if h.len() > 0 { lemma_run_vst(h.drop_last(), n); lemma_win_step(h, n); }
    else { assert(win(h, n) =~= Seq::<T>::empty()); }
}
