// C08 (readiness never reverts): for every wrapper, if the own state reports a value it still reports one after any further
// delivered value; together with the silent-inner frame (E2: own state unchanged) this gives monotone readiness for every chain.

pub proof fn lemma_ready_monotone_alma(o: AlmaOwn, y: T)
    requires o.n >= 1
    ensures alma_own_out(o).is_some() ==> alma_own_out(alma_own_step(o, y)).is_some()
{}

pub proof fn lemma_ready_monotone_binary_entropy(o: BinaryEntropyOwn, y: T)
    requires o.n >= 1
    ensures binary_entropy_own_out(o).is_some() ==> binary_entropy_own_out(binary_entropy_own_step(o, y)).is_some()
{}

pub proof fn lemma_ready_monotone_center_of_gravity(o: CenterOfGravityOwn, y: T)
    requires o.n >= 1
    ensures center_of_gravity_own_out(o).is_some() ==> center_of_gravity_own_out(center_of_gravity_own_step(o, y)).is_some()
{}

pub proof fn lemma_ready_monotone_correlation_trend_indicator(o: CorrelationTrendIndicatorOwn, y: T)
    requires o.n >= 1
    ensures correlation_trend_indicator_own_out(o).is_some() ==> correlation_trend_indicator_own_out(correlation_trend_indicator_own_step(o, y)).is_some()
{}

pub proof fn lemma_ready_monotone_cumulative(o: CumulativeOwn, y: T)
    requires o.n >= 1
    ensures cumulative_own_out(o).is_some() ==> cumulative_own_out(cumulative_own_step(o, y)).is_some()
{}

pub proof fn lemma_ready_monotone_cyber_cycle(o: CyberCycleOwn, y: T)
    requires o.n >= 1
    ensures cyber_cycle_own_out(o).is_some() ==> cyber_cycle_own_out(cyber_cycle_own_step(o, y)).is_some()
{}

pub proof fn lemma_ready_monotone_drawdown(o: DrawdownOwn, y: T)
    ensures drawdown_own_out(o).is_some() ==> drawdown_own_out(drawdown_own_step(o, y)).is_some()
{}

pub proof fn lemma_ready_monotone_ehlers_fisher_transform<M: View>(o: EhlersFisherTransformOwn<M>, y: T)
    requires o.n >= 2
    ensures ehlers_fisher_transform_own_out::<M>(o).is_some() ==> ehlers_fisher_transform_own_out::<M>(ehlers_fisher_transform_own_step::<M>(o, y)).is_some()
{}

pub proof fn lemma_ready_monotone_ema(o: EmaOwn, y: T)
    requires o.n >= 1
    ensures ema_own_out(o).is_some() ==> ema_own_out(ema_own_step(o, y)).is_some()
{}

pub proof fn lemma_ready_monotone_gte(o: GTEOwn, y: T)
    ensures gte_own_out(o).is_some() ==> gte_own_out(gte_own_step(o, y)).is_some()
{}

pub proof fn lemma_ready_monotone_hl_normalizer(o: HLNormalizerOwn, y: T)
    requires o.n >= 1
    ensures hl_normalizer_own_out(o).is_some() ==> hl_normalizer_own_out(hl_normalizer_own_step(o, y)).is_some()
{}

pub proof fn lemma_ready_monotone_laguerre_filter(o: LaguerreFilterOwn, y: T)
    ensures laguerre_filter_own_out(o).is_some() ==> laguerre_filter_own_out(laguerre_filter_own_step(o, y)).is_some()
{}

pub proof fn lemma_ready_monotone_laguerrersi(o: LaguerreRSIOwn, y: T)
    ensures laguerrersi_own_out(o).is_some() ==> laguerrersi_own_out(laguerrersi_own_step(o, y)).is_some()
{}

pub proof fn lemma_ready_monotone_ln_return(o: LnReturnOwn, y: T)
    requires o.prev.v() != 0real ==> o.cur.v() > 0real      // the representation invariant of LnReturn (positive inputs)
    ensures ln_return_own_out(o).is_some() ==> ln_return_own_out(ln_return_own_step(o, y)).is_some()
{}

pub proof fn lemma_ready_monotone_lte(o: LTEOwn, y: T)
    ensures lte_own_out(o).is_some() ==> lte_own_out(lte_own_step(o, y)).is_some()
{}

pub proof fn lemma_ready_monotone_max(o: MaxOwn, y: T)
    requires o.n >= 1
    ensures max_own_out(o).is_some() ==> max_own_out(max_own_step(o, y)).is_some()
{}

pub proof fn lemma_ready_monotone_min(o: MinOwn, y: T)
    requires o.n >= 1
    ensures min_own_out(o).is_some() ==> min_own_out(min_own_step(o, y)).is_some()
{}

pub proof fn lemma_ready_monotone_myrsi(o: MyRSIOwn, y: T)
    requires o.n >= 1
    ensures myrsi_own_out(o).is_some() ==> myrsi_own_out(myrsi_own_step(o, y)).is_some()
{}

pub proof fn lemma_ready_monotone_noise_elimination_technology(o: NoiseEliminationTechnologyOwn, y: T)
    requires o.n >= 1
    ensures noise_elimination_technology_own_out(o).is_some() ==> noise_elimination_technology_own_out(noise_elimination_technology_own_step(o, y)).is_some()
{}

pub proof fn lemma_ready_monotone_re_flex(o: ReFlexOwn, y: T)
    requires o.n >= 1
    ensures re_flex_own_out(o).is_some() ==> re_flex_own_out(re_flex_own_step(o, y)).is_some()
{}

pub proof fn lemma_ready_monotone_roc(o: RocOwn, y: T)
    requires o.n >= 1
    ensures roc_own_out(o).is_some() ==> roc_own_out(roc_own_step(o, y)).is_some()
{}

pub proof fn lemma_ready_monotone_roofing_filter(o: RoofingFilterOwn, y: T)
    requires o.n >= 1
    ensures roofing_filter_own_out(o).is_some() ==> roofing_filter_own_out(roofing_filter_own_step(o, y)).is_some()
{}

pub proof fn lemma_ready_monotone_rsi(o: RsiOwn, y: T)
    requires o.n >= 1
    ensures rsi_own_out(o).is_some() ==> rsi_own_out(rsi_own_step(o, y)).is_some()
{}

pub proof fn lemma_ready_monotone_sma(o: SmaOwn, y: T)
    requires o.n >= 1
    ensures sma_own_out(o).is_some() ==> sma_own_out(sma_own_step(o, y)).is_some()
{}

pub proof fn lemma_ready_monotone_super_smoother(o: SuperSmootherOwn, y: T)
    requires o.n >= 1
    ensures super_smoother_own_out(o).is_some() ==> super_smoother_own_out(super_smoother_own_step(o, y)).is_some()
{}

pub proof fn lemma_ready_monotone_trend_flex(o: TrendFlexOwn, y: T)
    requires o.n >= 1
    ensures trend_flex_own_out(o).is_some() ==> trend_flex_own_out(trend_flex_own_step(o, y)).is_some()
{}

pub proof fn lemma_ready_monotone_vst(o: VstOwn, y: T)
    requires o.wo.1.n >= 1
    ensures vst_own_out(o).is_some() ==> vst_own_out(vst_own_step(o, y)).is_some()
{}

pub proof fn lemma_ready_monotone_vsct(o: VsctOwn, y: T)
    requires o.wo.1.n >= 1
    ensures vsct_own_out(o).is_some() ==> vsct_own_out(vsct_own_step(o, y)).is_some()
{}

pub proof fn lemma_ready_monotone_welford_online(o: WelfordOnlineOwn, y: T)
    requires o.n >= 1
    ensures welford_online_own_out(o).is_some() ==> welford_online_own_out(welford_online_own_step(o, y)).is_some()
{}

pub proof fn lemma_ready_monotone_welford_rolling(o: WelfordRollingOwn, y: T)
    requires o.n >= 1
    ensures welford_rolling_own_out(o).is_some() ==> welford_rolling_own_out(welford_rolling_own_step(o, y)).is_some()
{}

// documented warm-up lengths over Echo, as functions of the number of delivered values (from the history lemmas)
use crate::props::c00_window::*;
use crate::props::c02_h_sma::*;
use crate::props::c05_h_rsi::*;
use crate::props::c05_h_my_rsi::*;
use crate::props::c02_h_welford_online::*;
use crate::props::c02_h_min::*;
use crate::props::c02_h_max::*;
use crate::props::c02_h_cumulative::*;
use crate::props::c06_h_center_of_gravity::*;
pub proof fn lemma_warmup_sma(h: Seq<T>, n: nat) requires n >= 1
    ensures Sma::<Echo>::out(run::<Sma<Echo>>((None::<T>, SmaOwn { n: n, w: Seq::<T>::empty() }), h)).is_some() == (h.len() >= n)
{ lemma_sma_closed_form(h, n); }
pub proof fn lemma_warmup_rsi(h: Seq<T>, n: nat) requires n >= 1
    ensures Rsi::<Echo>::out(run::<Rsi<Echo>>((None::<T>, RsiOwn { n: n, w: Seq::<T>::empty(), pred: mk(0real) }), h)).is_some() == (h.len() >= n)
{ lemma_rsi_closed_form(h, n); }
pub proof fn lemma_warmup_my_rsi(h: Seq<T>, n: nat) requires n >= 1
    ensures MyRSI::<Echo>::out(run::<MyRSI<Echo>>((None::<T>, MyRSIOwn { n: n, w: Seq::<T>::empty(), pred: mk(0real), held: mk(0real) }), h)).is_some() == (h.len() >= n)
{ lemma_run_my_rsi_window(h, n, mk(0real)); }
pub proof fn lemma_warmup_welford_online(h: Seq<T>, n: nat) requires n >= 1
    ensures WelfordOnline::<Echo>::out(run::<WelfordOnline<Echo>>((None::<T>, WelfordOnlineOwn { n: n, w: Seq::<T>::empty() }), h)).is_some() == (h.len() + 1 >= n)
{ lemma_welford_online_closed_form(h, n); }
pub proof fn lemma_warmup_first_value(h: Seq<T>, n: nat) requires n >= 1, h.len() >= 1
    ensures Min::<Echo>::out(run::<Min<Echo>>((None::<T>, MinOwn { n: n, w: Seq::<T>::empty() }), h)).is_some(),
        Max::<Echo>::out(run::<Max<Echo>>((None::<T>, MaxOwn { n: n, w: Seq::<T>::empty() }), h)).is_some(),
        Cumulative::<Echo>::out(run::<Cumulative<Echo>>((None::<T>, CumulativeOwn { n: n, w: Seq::<T>::empty() }), h)).is_some(),
        CenterOfGravity::<Echo>::out(run::<CenterOfGravity<Echo>>((None::<T>, CenterOfGravityOwn { n: n, w: Seq::<T>::empty() }), h)).is_some(),
{ lemma_min_closed_form(h, n); lemma_max_closed_form(h, n); lemma_cumulative_closed_form(h, n); lemma_center_of_gravity_closed_form(h, n); }
// counters: Ema and SuperSmoother report from the N-th delivered value on
pub proof fn lemma_run_ema_counter(h: Seq<T>, n: nat, alpha: T)
    ensures run::<Ema<Echo>>((None::<T>, EmaOwn { n: n, alpha: alpha, e: mk(0real), k: 0nat }), h).1.k == h.len(),
        run::<Ema<Echo>>((None::<T>, EmaOwn { n: n, alpha: alpha, e: mk(0real), k: 0nat }), h).1.n == n,
    decreases h.len()
{ if h.len() > 0 { lemma_run_ema_counter(h.drop_last(), n, alpha); } }
pub proof fn lemma_warmup_ema(h: Seq<T>, n: nat, alpha: T)
    ensures Ema::<Echo>::out(run::<Ema<Echo>>((None::<T>, EmaOwn { n: n, alpha: alpha, e: mk(0real), k: 0nat }), h)).is_some() == (h.len() >= n)
{ lemma_run_ema_counter(h, n, alpha); }
pub proof fn lemma_run_super_smoother_counter(h: Seq<T>, o: SuperSmootherOwn)
    ensures run::<SuperSmoother<Echo>>((None::<T>, o), h).1.k == o.k + h.len(), run::<SuperSmoother<Echo>>((None::<T>, o), h).1.n == o.n,
    decreases h.len()
{ if h.len() > 0 { lemma_run_super_smoother_counter(h.drop_last(), o); } }
pub proof fn lemma_warmup_super_smoother(h: Seq<T>, o: SuperSmootherOwn)
    requires o.k == 0
    ensures SuperSmoother::<Echo>::out(run::<SuperSmoother<Echo>>((None::<T>, o), h)).is_some() == (h.len() >= o.n)
{ lemma_run_super_smoother_counter(h, o); }
// RoofingFilter(N, M): the embedded smoother is fed from the (N+2)-th value on, so it reports from value N + M + 1
pub proof fn lemma_run_roofing_counter(h: Seq<T>, o: RoofingFilterOwn)
    requires o.k == 0, o.ss.1.k == 0
    ensures ({ let s = run::<RoofingFilter<Echo>>((None::<T>, o), h);
               s.1.k == h.len() && s.1.n == o.n && s.1.ss.1.n == o.ss.1.n && s.1.ss.1.k == (if h.len() <= o.n + 1 { 0nat } else { (h.len() - o.n - 1) as nat }) })
    decreases h.len()
{ if h.len() > 0 { lemma_run_roofing_counter(h.drop_last(), o); } }
pub proof fn lemma_warmup_roofing(h: Seq<T>, o: RoofingFilterOwn)
    requires o.k == 0, o.ss.1.k == 0, o.ss.1.n >= 1
    ensures RoofingFilter::<Echo>::out(run::<RoofingFilter<Echo>>((None::<T>, o), h)).is_some() == (h.len() >= o.n + o.ss.1.n + 1)
{ lemma_run_roofing_counter(h, o); }
// PolarizedFractalEfficiency reports what its moving average reports: its readiness never reverts provided the moving average's does not
// (stated for an arbitrary moving-average type M; every wrapper of the catalogue satisfies the hypothesis by the lemmas above)
pub open spec fn ready_monotone<M: View>() -> bool { forall|s: M::S, x: T| #![trigger M::step(s, x)] M::out(s).is_some() ==> M::out(M::step(s, x)).is_some() }
pub proof fn lemma_ready_monotone_pfe<M: View>(o: PolarizedFractalEfficiencyOwn<M>, y: T)
    requires ready_monotone::<M>(), o.n >= 1, o.o == M::out(o.ma) || o.o.is_none()
    ensures polarized_fractal_efficiency_own_out::<M>(o).is_some() ==> polarized_fractal_efficiency_own_out::<M>(polarized_fractal_efficiency_own_step::<M>(o, y)).is_some(),
        ({ let s = polarized_fractal_efficiency_own_step::<M>(o, y); s.o == M::out(s.ma) || s.o.is_none() })
{}
