// C06 corollaries over the closed forms
use crate::props::c00_affine::*;

// CenterOfGravity is 0 on a constant non-zero window:  sum_k k c / (n c) = (n+1)/2
pub open spec fn tri(n: int) -> real decreases n { if n <= 0 { 0real } else { tri(n - 1) + (n as real) } }
pub proof fn lemma_tri_closed(n: int) requires n >= 0 ensures tri(n) * 2real == (n as real) * ((n as real) + 1real) decreases n
{
    if n > 0 { lemma_tri_closed(n - 1); let k = n as real; assert((n - 1) as real == k - 1real);
        assert((k - 1real) * k + 2real * k == k * (k + 1real)) by(nonlinear_arith); }
    else { assert(0real * 1real == 0real) by(nonlinear_arith); }
}
pub proof fn lemma_wsum_const(w: Seq<T>, n: int, c: real)
    requires all_eq(w, c), n >= w.len()
    ensures wsum_k(w, n) == c * (tri(n) - tri(n - w.len()))
    decreases w.len()
{
    if w.len() > 0 {
        lemma_wsum_const(w.drop_last(), n, c);
        assert(w.last() == w[w.len() - 1]);
        let k = (n - (w.len() - 1)) as real;
        assert(tri(n - (w.len() - 1)) == tri(n - w.len()) + k);
        assert(c * (tri(n) - tri(n - w.len())) == c * (tri(n) - tri(n - (w.len() - 1))) + k * c) by(nonlinear_arith) requires tri(n - (w.len() - 1)) == tri(n - w.len()) + k;
    } else { assert(c * 0real == 0real) by(nonlinear_arith); }
}
pub proof fn lemma_cog_constant_window(w: Seq<T>, c: real)
    requires w.len() > 0, all_eq(w, c), c != 0real
    ensures cog_of(w) == 0real
{
    let n = w.len() as real;
    lemma_wsum_const(w, w.len() as int, c); lemma_sum_const(w, c); lemma_tri_closed(w.len() as int);
    assert(tri(0) == 0real);
    let t = tri(w.len() as int);
    assert(n * c != 0real) by(nonlinear_arith) requires n >= 1real, c != 0real;
    // -ws / s = -(c t)/(n c) = -(n+1)/2
    let half = (n + 1real) / 2real;
    assert((-half) * (n * c) == -(c * t)) by(nonlinear_arith) requires t * 2real == n * (n + 1real), half * 2real == n + 1real;
    lemma_rdiv_unique(-half, -(c * t), n * c);
    lemma_rdiv_unique(half, n + 1real, 2real);
}
// NET is +1 on a strictly increasing window and -1 on a strictly decreasing one
pub open spec fn strictly_increasing(w: Seq<T>) -> bool { forall|i: int, j: int| 0 <= i < j < w.len() ==> (#[trigger] w[i]).v() < (#[trigger] w[j]).v() }
pub proof fn lemma_kendall_inner_increasing(w: Seq<T>, c: int, m: int)
    requires strictly_increasing(w), 1 <= m <= c <= w.len()
    ensures kendall_inner(xs_of(w), c, m) == ((m - 1) as real)
    decreases m
{
    if m > 1 {
        lemma_kendall_inner_increasing(w, c, m - 1);
        // xs[m-1] is newer than xs[c]  (m-1 < c), so it is larger
        assert(xs_of(w)[m - 1] == w[w.len() - (m - 1)]); assert(xs_of(w)[c] == w[w.len() - c]);
    }
}
pub proof fn lemma_kendall_outer_increasing(w: Seq<T>, m: int)
    requires strictly_increasing(w), 2 <= m <= w.len() + 1
    ensures kendall_outer(xs_of(w), m) == pairs(m)
    decreases m
{
    if m > 2 { lemma_kendall_outer_increasing(w, m - 1); lemma_kendall_inner_increasing(w, m - 1, m - 1); }
}
pub proof fn lemma_net_increasing(w: Seq<T>)
    requires w.len() >= 2, strictly_increasing(w)
    ensures net_of(w) == 1real
{
    let n = w.len() as real; let m = w.len() as int + 1;
    lemma_kendall_outer_increasing(w, m); lemma_pairs_closed(m);
    let den = 5real / 10real * n * (n - 1real);
    assert((m - 1) as real == n && (m - 2) as real == n - 1real);
    assert(den * 2real == n * (n - 1real)) by(nonlinear_arith) requires den == 5real / 10real * n * (n - 1real);
    assert(n * (n - 1real) > 0real) by(nonlinear_arith) requires n >= 2real;
    lemma_rdiv_sign(pairs(m), den);
}
