// C03 for this view: two histories that agree on their last K values give the same output
use crate::props::c00_window::*;
use crate::props::c03_0_suffix::*;
use crate::props::c02_h_roc::*;
// Roc: K = N + 1, except while it is holding its previous output because the base is 0 (the exception stated in C03)
pub proof fn lemma_finite_memory_roc(h1: Seq<T>, h2: Seq<T>, n: nat)
    requires n >= 1, h1.len() >= n + 1, h2.len() >= n + 1, suffix(h1, n + 1) == suffix(h2, n + 1), h1[h1.len() - n - 1].v() != 0real
    ensures Roc::<Echo>::out(run::<Roc<Echo>>((None::<T>, RocOwn { n: n, w: Seq::<T>::empty(), base: None::<T>, o: None::<T> }), h1))
         == Roc::<Echo>::out(run::<Roc<Echo>>((None::<T>, RocOwn { n: n, w: Seq::<T>::empty(), base: None::<T>, o: None::<T> }), h2))
{
    lemma_run_roc(h1, n); lemma_run_roc(h2, n);
    assert(suffix(h1, n + 1)[0] == h1[h1.len() - n - 1]); assert(suffix(h2, n + 1)[0] == h2[h2.len() - n - 1]);
    assert(suffix(h1, n + 1).last() == h1.last()); assert(suffix(h2, n + 1).last() == h2.last());
}
