// C03 helpers: suffix of a history
use crate::props::c00_window::*;
pub open spec fn suffix(h: Seq<T>, k: nat) -> Seq<T> { h.subrange(h.len() - k, h.len() as int) }
pub proof fn lemma_pred_suffix(h1: Seq<T>, h2: Seq<T>, n: nat)
    requires n >= 1, h1.len() >= n + 1, h2.len() >= n + 1, suffix(h1, n + 1) == suffix(h2, n + 1)
    ensures pred_of(h1, n) == pred_of(h2, n)
{
    assert(suffix(h1, n + 1)[0] == h1[h1.len() - n - 1]);
    assert(suffix(h2, n + 1)[0] == h2[h2.len() - n - 1]);
}

