// centred sums and Cauchy-Schwarz over sequences (generic)
pub open spec fn csum(u: Seq<T>, c: real) -> real decreases u.len() { if u.len() == 0 { 0real } else { csum(u.drop_last(), c) + (u.last().v() - c) } }
pub open spec fn cssq(u: Seq<T>, c: real) -> real decreases u.len() { if u.len() == 0 { 0real } else { cssq(u.drop_last(), c) + (u.last().v() - c) * (u.last().v() - c) } }
pub proof fn lemma_cs_centered(u: Seq<T>, c: real)
    ensures csum(u, c) * csum(u, c) <= cssq(u, c) * (u.len() as real), cssq(u, c) >= 0real
    decreases u.len()
{
    if u.len() > 0 {
        lemma_cs_centered(u.drop_last(), c);
        let a = u.last().v() - c;
        lemma_cs_step(csum(u.drop_last(), c), cssq(u.drop_last(), c), u.drop_last().len() as real, a, 1real);
        assert(a * 1real == a && 1real * 1real == 1real) by(nonlinear_arith);
        assert(u.len() as real == (u.drop_last().len() as real) + 1real);
    } else { assert(0real * 0real <= 0real * 0real) by(nonlinear_arith); }
}
pub proof fn lemma_centered_sums(u: Seq<T>, c: real)
    ensures csum(u, c) == sum(u) - (u.len() as real) * c, cssq(u, c) == sumsq(u) - 2real * c * sum(u) + (u.len() as real) * (c * c)
    decreases u.len()
{
    if u.len() > 0 {
        lemma_centered_sums(u.drop_last(), c);
        let x = u.last().v(); let k = u.drop_last().len() as real;
        assert(u.len() as real == k + 1real);
        assert((k + 1real) * c == k * c + c) by(nonlinear_arith);
        assert((x - c) * (x - c) == x * x - 2real * c * x + c * c) by(nonlinear_arith);
        assert(2real * c * (sum(u.drop_last()) + x) == 2real * c * sum(u.drop_last()) + 2real * c * x) by(nonlinear_arith);
        assert((k + 1real) * (c * c) == k * (c * c) + c * c) by(nonlinear_arith);
    } else { assert(0real * c == 0real && 0real * (c * c) == 0real && 2real * c * 0real == 0real) by(nonlinear_arith); }
}
