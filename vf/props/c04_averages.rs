// C04: Sma, Ema (default alpha) and Alma are genuine averages of the values they average.
use crate::props::c00_window::*;
use crate::props::c02_h_sma::*;

// ---------- arithmetic mean of a non-empty sequence ----------
pub proof fn lemma_sum_bounds(w: Seq<T>)
    requires w.len() > 0
    ensures (w.len() as real) * smin(w) <= sum(w) <= (w.len() as real) * smax(w)
    decreases w.len()
{
    if w.len() == 1 {
        assert(w.drop_last() =~= Seq::<T>::empty());
        assert(w.last() == w[0]);
        assert(sum(Seq::<T>::empty()) == 0real);
        assert(sum(w) == w[0].v());
        assert(1real * smin(w) == smin(w)) by(nonlinear_arith);
        assert(1real * smax(w) == smax(w)) by(nonlinear_arith);
    } else {
        let u = w.drop_last(); let x = w.last().v(); let k = u.len() as real;
        lemma_sum_bounds(u);
        assert(w.len() as real == k + 1real);
        // smin(w) <= smin(u), smin(w) <= x ; smax(w) >= smax(u), smax(w) >= x
        assert((k + 1real) * smin(w) <= k * smin(u) + x) by(nonlinear_arith) requires smin(w) <= smin(u), smin(w) <= x, k >= 1real;
        assert((k + 1real) * smax(w) >= k * smax(u) + x) by(nonlinear_arith) requires smax(w) >= smax(u), smax(w) >= x, k >= 1real;
    }
}
// the mean never leaves the interval spanned by the averaged values
pub proof fn lemma_mean_in_hull(w: Seq<T>)
    requires w.len() > 0
    ensures smin(w) <= rdiv(sum(w), w.len() as real) <= smax(w)
{
    lemma_sum_bounds(w);
    lemma_rdiv_ge_k(sum(w), w.len() as real, smin(w));
    lemma_rdiv_le_k(sum(w), w.len() as real, smax(w));
}
pub open spec fn all_eq(w: Seq<T>, c: real) -> bool { forall|i: int| 0 <= i < w.len() ==> (#[trigger] w[i]).v() == c }
pub proof fn lemma_sum_const(w: Seq<T>, c: real)
    requires all_eq(w, c)
    ensures sum(w) == (w.len() as real) * c
    decreases w.len()
{
    if w.len() > 0 {
        lemma_sum_const(w.drop_last(), c);
        assert(w.last() == w[w.len() - 1]);
        let k = w.drop_last().len() as real;
        assert((k + 1real) * c == k * c + c) by(nonlinear_arith);
    } else { assert(0real * c == 0real) by(nonlinear_arith); }
}
// a constant window is reproduced exactly
pub proof fn lemma_mean_const(w: Seq<T>, c: real)
    requires w.len() > 0, all_eq(w, c)
    ensures rdiv(sum(w), w.len() as real) == c
{
    lemma_sum_const(w, c);
    let n = w.len() as real;
    lemma_mul_comm(c, n);
    lemma_rdiv_unique(c, sum(w), n);
}
pub open spec fn pointwise_le(u: Seq<T>, w: Seq<T>) -> bool { u.len() == w.len() && forall|i: int| 0 <= i < u.len() ==> (#[trigger] u[i]).v() <= w[i].v() }
pub proof fn lemma_sum_monotone(u: Seq<T>, w: Seq<T>)
    requires pointwise_le(u, w)
    ensures sum(u) <= sum(w)
    decreases u.len()
{
    if u.len() > 0 {
        assert(pointwise_le(u.drop_last(), w.drop_last())) by {
            assert forall|i: int| 0 <= i < u.drop_last().len() implies (#[trigger] u.drop_last()[i]).v() <= w.drop_last()[i].v() by { assert(u.drop_last()[i] == u[i]); assert(w.drop_last()[i] == w[i]); }
        }
        lemma_sum_monotone(u.drop_last(), w.drop_last());
        assert(u.last() == u[u.len() - 1]); assert(w.last() == w[w.len() - 1]);
    }
}
// raising any input never lowers the mean
pub proof fn lemma_mean_monotone(u: Seq<T>, w: Seq<T>)
    requires u.len() > 0, pointwise_le(u, w)
    ensures rdiv(sum(u), u.len() as real) <= rdiv(sum(w), w.len() as real)
{
    lemma_sum_monotone(u, w);
    let n = u.len() as real;
    lemma_rdiv_mul(sum(u), n); lemma_rdiv_mul(sum(w), n);
    assert(rdiv(sum(u), n) <= rdiv(sum(w), n)) by(nonlinear_arith) requires rdiv(sum(u), n) * n == sum(u), rdiv(sum(w), n) * n == sum(w), sum(u) <= sum(w), n > 0real;
}
pub open spec fn affine(w: Seq<T>, a: real, b: real) -> Seq<T> { Seq::new(w.len(), |i: int| mk(a * w[i].v() + b)) }
pub proof fn lemma_sum_affine(w: Seq<T>, a: real, b: real)
    ensures sum(affine(w, a, b)) == a * sum(w) + (w.len() as real) * b
    decreases w.len()
{
    if w.len() > 0 {
        lemma_sum_affine(w.drop_last(), a, b);
        assert(affine(w, a, b).drop_last() =~= affine(w.drop_last(), a, b));
        assert(affine(w, a, b).last().v() == a * w.last().v() + b);
        let k = w.drop_last().len() as real; let s = sum(w.drop_last()); let x = w.last().v();
        assert(a * (s + x) + (k + 1real) * b == (a * s + k * b) + (a * x + b)) by(nonlinear_arith);
    } else {
        assert(affine(w, a, b) =~= Seq::<T>::empty());
        assert(a * 0real + 0real * b == 0real) by(nonlinear_arith);
    }
}
// the mean commutes with x -> a x + b
pub proof fn lemma_mean_affine(w: Seq<T>, a: real, b: real)
    requires w.len() > 0
    ensures rdiv(sum(affine(w, a, b)), w.len() as real) == a * rdiv(sum(w), w.len() as real) + b
{
    lemma_sum_affine(w, a, b);
    let n = w.len() as real; let m = rdiv(sum(w), n);
    lemma_rdiv_mul(sum(w), n);
    assert((a * m + b) * n == a * (m * n) + n * b) by(nonlinear_arith);
    lemma_rdiv_unique(a * m + b, sum(affine(w, a, b)), n);
}
// Sma over any history: output within [min, max] of exactly the last N values (this is also C07's  Min <= Sma <= Max)
pub proof fn lemma_sma_is_average(h: Seq<T>, n: nat)
    requires n >= 1, h.len() >= n
    ensures ({ let o = Sma::<Echo>::out(run::<Sma<Echo>>((None::<T>, SmaOwn { n: n, w: Seq::<T>::empty() }), h));
               o.is_some() && smin(win(h, n)) <= o.unwrap().v() <= smax(win(h, n)) })
{
    lemma_sma_closed_form(h, n);
    lemma_mean_in_hull(win(h, n));
}

// ---------- Ema: e_0 = x_0, e_t = w x_t + (1 - w) e_(t-1),  w = alpha/(N+1) ----------
pub proof fn lemma_ema_weight(n: nat)
    requires n >= 1
    ensures 0real < rdiv(2real, 1real + (n as real)) <= 1real
{ lemma_rdiv_sign(2real, 1real + (n as real)); }
// one step of the recursion stays between the previous value and the new input (a convex combination), hence within the
// closed interval spanned by all values so far; it is monotone in both arguments and commutes with x -> a x + b
pub proof fn lemma_ema_step_convex(w: real, e: real, x: real, lo: real, hi: real)
    requires 0real < w <= 1real, lo <= e <= hi, lo <= x <= hi
    ensures lo <= x * w + e * (1real - w) <= hi
{
    assert(x * w + e * (1real - w) >= lo * w + lo * (1real - w)) by(nonlinear_arith) requires 0real < w <= 1real, x >= lo, e >= lo;
    assert(x * w + e * (1real - w) <= hi * w + hi * (1real - w)) by(nonlinear_arith) requires 0real < w <= 1real, x <= hi, e <= hi;
    assert(lo * w + lo * (1real - w) == lo) by(nonlinear_arith);
    assert(hi * w + hi * (1real - w) == hi) by(nonlinear_arith);
}
pub proof fn lemma_ema_step_monotone(w: real, e1: real, x1: real, e2: real, x2: real)
    requires 0real < w <= 1real, e1 <= e2, x1 <= x2
    ensures x1 * w + e1 * (1real - w) <= x2 * w + e2 * (1real - w)
{
    assert(x1 * w <= x2 * w) by(nonlinear_arith) requires x1 <= x2, w > 0real;
    assert(e1 * (1real - w) <= e2 * (1real - w)) by(nonlinear_arith) requires e1 <= e2, w <= 1real;
}
pub proof fn lemma_ema_step_affine(w: real, e: real, x: real, a: real, b: real)
    ensures (a * x + b) * w + (a * e + b) * (1real - w) == a * (x * w + e * (1real - w)) + b
{
    lemma_affine_mix(a, b, x, e, w);
}
// the real code's own-step IS that recursion (by the E3 contract), instantiated here for the default alpha = 2
pub proof fn lemma_ema_own_step_is_recursion(o: EmaOwn, y: T)
    requires o.alpha.v() == 2real, o.n >= 1
    ensures ({ let w = rdiv(2real, 1real + (o.n as real));
               ema_own_step(o, y).e.v() == (if o.k == 0 { y.v() } else { y.v() * w + o.e.v() * (1real - w) }) && ema_own_step(o, y).k == o.k + 1 && 0real < w <= 1real })
{ lemma_ema_weight(o.n); }

// ---------- Alma: positively weighted mean ----------
pub proof fn lemma_dot_bounds(g: Seq<T>, w: Seq<T>)
    requires g.len() == w.len(), w.len() > 0, all_pos(g)
    ensures smin(w) * sum(g) <= dot(g, w) <= smax(w) * sum(g)
    decreases w.len()
{
    if w.len() == 1 {
        assert(g.drop_last() =~= Seq::<T>::empty()); assert(w.drop_last() =~= Seq::<T>::empty());
        assert(g.last() == g[0]); assert(w.last() == w[0]);
        assert(dot(Seq::<T>::empty(), Seq::<T>::empty()) == 0real); assert(sum(Seq::<T>::empty()) == 0real);
        assert(dot(g, w) == g[0].v() * w[0].v()); assert(sum(g) == g[0].v());
        assert(smin(w) == w[0].v() && smax(w) == w[0].v());
        assert(w[0].v() * g[0].v() == g[0].v() * w[0].v()) by(nonlinear_arith);
    } else {
        let gu = g.drop_last(); let wu = w.drop_last(); let gx = g.last().v(); let x = w.last().v();
        assert(all_pos(gu)) by { assert forall|i: int| 0 <= i < gu.len() implies (#[trigger] gu[i]).v() > 0real by { assert(gu[i] == g[i]); } }
        lemma_dot_bounds(gu, wu);
        lemma_all_pos_sum(gu);
        assert(g.last() == g[g.len() - 1]);
        let sg = sum(gu);
        assert(smin(w) * (sg + gx) <= smin(wu) * sg + gx * x) by(nonlinear_arith) requires smin(w) <= smin(wu), smin(w) <= x, sg >= 0real, gx > 0real;
        assert(smax(w) * (sg + gx) >= smax(wu) * sg + gx * x) by(nonlinear_arith) requires smax(w) >= smax(wu), smax(w) >= x, sg >= 0real, gx > 0real;
    }
}
// Alma's output never leaves the interval spanned by its window (Min <= Alma <= Max)
pub proof fn lemma_alma_in_hull(g: Seq<T>, w: Seq<T>)
    requires g.len() == w.len(), w.len() > 0, all_pos(g)
    ensures smin(w) <= rdiv(dot(g, w), sum(g)) <= smax(w)
{
    lemma_dot_bounds(g, w); lemma_all_pos_sum(g);
    assert(smin(w) * sum(g) == smin(w) * sum(g));
    lemma_rdiv_ge_k(dot(g, w), sum(g), smin(w));
    lemma_rdiv_le_k(dot(g, w), sum(g), smax(w));
}
// every weight Alma ever stores is a Gaussian value, hence positive
pub proof fn lemma_alma_weight_positive(k: real, m: real, s: real)
    ensures alma_wt(k, m, s) > 0real
{ ax_exp_pos(rdiv(-r_powi(k - m, 2), 2real * s * s)); }
