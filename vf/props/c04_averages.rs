// C04: Sma, Ema (default alpha) and Alma are genuine averages of the values they average.
use crate::props::c00_affine::*;
use crate::props::c00_window::*;
use crate::props::c02_h_sma::*;

// Sma over any history: output within [min, max] of exactly the last N values (this is also C07's  Min <= Sma <= Max)
pub proof fn lemma_sma_is_average(h: Seq<T>, n: nat)
    requires n >= 1, h.len() >= n
    ensures ({ let o = Sma::<Echo>::out(run::<Sma<Echo>>((None::<T>, SmaOwn { n: n, w: Seq::<T>::empty() }), h));
               o.is_some() && smin(win(h, n)) <= o.unwrap().v() <= smax(win(h, n)) })
{
    lemma_sma_closed_form(h, n);
    lemma_mean_in_hull(win(h, n));
}

// ---------- Alma: positively weighted mean ----------
pub proof fn lemma_dot_bounds(g: Seq<T>, w: Seq<T>)
    requires g.len() == w.len(), w.len() > 0, all_pos(g)
    ensures smin(w) * sum(g) <= dot(g, w) <= smax(w) * sum(g)
    decreases w.len()
{
    if w.len() == 1 {
        assert(g.drop_last() =~= Seq::<T>::empty()); assert(w.drop_last() =~= Seq::<T>::empty());
        assert(g.last() == g[0]); assert(w.last() == w[0]);
        assert(dot(Seq::<T>::empty(), Seq::<T>::empty()) == 0real); assert(sum(Seq::<T>::empty()) == 0real);
        assert(dot(g, w) == g[0].v() * w[0].v()); assert(sum(g) == g[0].v());
        assert(smin(w) == w[0].v() && smax(w) == w[0].v());
        assert(w[0].v() * g[0].v() == g[0].v() * w[0].v()) by(nonlinear_arith);
    } else {
        let gu = g.drop_last(); let wu = w.drop_last(); let gx = g.last().v(); let x = w.last().v();
        assert(all_pos(gu)) by { assert forall|i: int| 0 <= i < gu.len() implies (#[trigger] gu[i]).v() > 0real by { assert(gu[i] == g[i]); } }
        lemma_dot_bounds(gu, wu);
        lemma_all_pos_sum(gu);
        assert(g.last() == g[g.len() - 1]);
        let sg = sum(gu);
        assert(smin(w) * (sg + gx) <= smin(wu) * sg + gx * x) by(nonlinear_arith) requires smin(w) <= smin(wu), smin(w) <= x, sg >= 0real, gx > 0real;
        assert(smax(w) * (sg + gx) >= smax(wu) * sg + gx * x) by(nonlinear_arith) requires smax(w) >= smax(wu), smax(w) >= x, sg >= 0real, gx > 0real;
    }
}
// Alma's output never leaves the interval spanned by its window (Min <= Alma <= Max)
pub proof fn lemma_alma_in_hull(g: Seq<T>, w: Seq<T>)
    requires g.len() == w.len(), w.len() > 0, all_pos(g)
    ensures smin(w) <= rdiv(dot(g, w), sum(g)) <= smax(w)
{
    lemma_dot_bounds(g, w); lemma_all_pos_sum(g);
    assert(smin(w) * sum(g) == smin(w) * sum(g));
    lemma_rdiv_ge_k(dot(g, w), sum(g), smin(w));
    lemma_rdiv_le_k(dot(g, w), sum(g), smax(w));
}
// every weight Alma ever stores is a Gaussian value, hence positive
pub proof fn lemma_alma_weight_positive(k: real, m: real, s: real)
    ensures alma_wt(k, m, s) > 0real
{ ax_exp_pos(rdiv(-r_powi(k - m, 2), 2real * s * s)); }
