// C07: range lemmas over the closed forms (the clauses on the real last()/update() are the [R]/range obligations in the view modules)
use crate::props::c00_affine::*;
use crate::props::c00_window::*;

// ---------- NET in [-1, 1]: |sum of pair signs| <= number of pairs ----------
pub proof fn lemma_kendall_inner_bound(xs: Seq<T>, c: int, m: int)
    requires m >= 1
    ensures -((m - 1) as real) <= kendall_inner(xs, c, m) <= ((m - 1) as real)
    decreases m
{
    if m > 1 { lemma_kendall_inner_bound(xs, c, m - 1); }
}
pub proof fn lemma_kendall_outer_bound(xs: Seq<T>, m: int)
    ensures -pairs(m) <= kendall_outer(xs, m) <= pairs(m)
    decreases m
{
    if m > 2 { lemma_kendall_outer_bound(xs, m - 1); lemma_kendall_inner_bound(xs, m - 1, m - 1); }
}
pub proof fn lemma_net_range(w: Seq<T>)
    requires w.len() >= 2
    ensures -1real <= net_of(w) <= 1real
{
    let n = w.len() as real; let m = w.len() as int + 1;
    lemma_kendall_outer_bound(xs_of(w), m); lemma_pairs_closed(m);
    let den = 5real / 10real * n * (n - 1real);
    assert((m - 1) as real == n && (m - 2) as real == n - 1real);
    assert(den * 2real == n * (n - 1real)) by(nonlinear_arith) requires den == 5real / 10real * n * (n - 1real);
    assert(den == pairs(m));
    assert(n * (n - 1real) > 0real) by(nonlinear_arith) requires n >= 2real;
    lemma_rdiv_sign(kendall_outer(xs_of(w), m), den);
}
// ---------- Min <= newest value, Sma, Alma <= Max over the same window ----------
pub proof fn lemma_window_order(h: Seq<T>, n: nat)
    requires n >= 1, h.len() >= n
    ensures smin(win(h, n)) <= h.last().v() <= smax(win(h, n)),
        smin(win(h, n)) <= rdiv(sum(win(h, n)), n as real) <= smax(win(h, n)),
{
    let w = win(h, n);
    assert(w.last() == h.last());
    lemma_smin_is_min(w); lemma_smax_is_max(w);
    lemma_mean_in_hull(w);
}
// ---------- |CenterOfGravity| <= (n-1)/2 for positive inputs: the weighted mean of the positions 1..n lies in [1, n] ----------
pub proof fn lemma_wsum_bounds(w: Seq<T>, n: int)
    requires all_pos(w), n >= w.len()
    ensures ((n - w.len() + 1) as real) * sum(w) <= wsum_k(w, n) <= (n as real) * sum(w)
    decreases w.len()
{
    if w.len() > 0 {
        let u = w.drop_last(); let x = w.last().v();
        assert(all_pos(u)) by { assert forall|i: int| 0 <= i < u.len() implies (#[trigger] u[i]).v() > 0real by { assert(u[i] == w[i]); } }
        lemma_wsum_bounds(u, n); lemma_all_pos_sum(u);
        assert(w.last() == w[w.len() - 1]);
        let k = (n - (w.len() - 1)) as real; let lo = (n - w.len() + 1) as real; let lou = (n - u.len() + 1) as real; let nn = n as real; let su = sum(u);
        assert(k == lo && lou == lo + 1real && k <= nn && lo >= 1real);
        assert(lo * (su + x) <= lou * su + k * x) by(nonlinear_arith) requires lou == lo + 1real, k == lo, su >= 0real;
        assert(nn * (su + x) >= nn * su + k * x) by(nonlinear_arith) requires k <= nn, x > 0real;
    } else { assert(((n + 1) as real) * 0real == 0real && (n as real) * 0real == 0real) by(nonlinear_arith); }
}
pub proof fn lemma_cog_bound(w: Seq<T>)
    requires w.len() > 0, all_pos(w)
    ensures -((w.len() as real) - 1real) / 2real <= cog_of(w) <= ((w.len() as real) - 1real) / 2real
{
    let n = w.len() as real; let s = sum(w); let ws = wsum_k(w, w.len() as int);
    lemma_wsum_bounds(w, w.len() as int); lemma_all_pos_sum(w);
    assert(1real * s == s) by(nonlinear_arith);
    // 1 <= ws/s <= n
    lemma_rdiv_mul(-ws, s);
    let q = rdiv(-ws, s);
    assert(q <= -1real) by(nonlinear_arith) requires q * s == -ws, ws >= s, s > 0real;
    assert(q >= -n) by(nonlinear_arith) requires q * s == -ws, ws <= n * s, s > 0real;
    lemma_rdiv_unique((n + 1real) / 2real, n + 1real, 2real);
}
// ---------- Drawdown never decreases (and stays in [0,1) by the invariant [R]) ----------
pub proof fn lemma_drawdown_monotone(o: DrawdownOwn, y: T)
    ensures drawdown_own_step(o, y).mdd.v() >= o.mdd.v()
{}
