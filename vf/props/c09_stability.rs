// C09: per-step stability facts of the recursive views, for every admissible window length (symbolic N).
// What is proved: pole locations / Jury conditions of the coefficients, exact one-step contraction identities for the homogeneous
// parts, and that the difference of two runs fed the same input obeys the homogeneous recursion.  c09_history lifts these to whole
// histories (distance after a common tail of m values == c^m * initial distance with 0 <= c < 1; bounded input, bounded output).

// ---------- coefficients ----------
pub proof fn lemma_ss_coeffs(n: nat)
    requires n >= 1
    ensures 0real < ss_a1(n) < 1real, -1real < ss_c3(n) < 0real, ss_b1(n) < 1real - ss_c3(n), -ss_b1(n) < 1real - ss_c3(n)
{
    ax_pi();
    assert(r_pi() > 3real);
    let arg = -(1414real / 1000real) * r_pi();
    assert(arg < 0real) by(nonlinear_arith) requires r_pi() > 3real, arg == -(1414real / 1000real) * r_pi();
    lemma_rdiv_sign(arg, n as real);
    assert(rdiv(arg, n as real) < 0real);
    ax_exp_neg(rdiv(arg, n as real)); ax_exp_pos(rdiv(arg, n as real));
    lemma_two_pole_coeffs(ss_a1(n), r_cos(rdiv(44422real / 10000real, n as real)), ss_b1(n), ss_c3(n));
}
// the smoother inside TrendFlex and ReFlex: 0 < a1 < 1 and the Jury conditions, for EVERY window length (small N included)
pub proof fn lemma_flex_coeffs(n: nat)
    requires n >= 1
    ensures 0real < flex_a1(n) < 1real, -1real < flex_c3(n) < 0real, flex_b1(n) < 1real - flex_c3(n), -flex_b1(n) < 1real - flex_c3(n),
        flex_c1(n) + flex_b1(n) + flex_c3(n) == 1real
{
    lemma_rdiv_sign(-(888442402435real / 100000000000real), n as real);
    lemma_two_pole_coeffs(flex_a1(n), r_cos(rdiv(444221201218real / 100000000000real, n as real)), flex_b1(n), flex_c3(n));
}
pub proof fn lemma_ema_pole(n: nat) requires n >= 1 ensures 0real <= 1real - rdiv(2real, 1real + (n as real)) < 1real
{ lemma_rdiv_sign(2real, 1real + (n as real)); }
// CyberCycle / LaguerreRSI: alpha = gamma = 2/(N+1)
pub proof fn lemma_alpha_range(n: nat)
    requires n >= 2
    ensures 0real < rdiv(2real, (n as real) + 1real) < 1real
{ lemma_rdiv_sign(2real, (n as real) + 1real); }

// ---------- one-step contraction ----------
// Ema: two runs fed the same value move towards each other by the factor (1 - w)
pub proof fn lemma_ema_contracts(o1: EmaOwn, o2: EmaOwn, y: T)
    requires o1.n == o2.n, o1.alpha == o2.alpha, o1.k > 0, o2.k > 0
    ensures ema_own_step(o1, y).e.v() - ema_own_step(o2, y).e.v() == (1real - ema_weight(o1)) * (o1.e.v() - o2.e.v())
{
    lemma_convex_diff(ema_weight(o1), o1.e.v(), o2.e.v(), y.v());
}
// SuperSmoother: the difference of two runs fed the same value obeys the homogeneous recursion d' = c2 d1 + c3 d2 ...
pub proof fn lemma_super_smoother_difference(o1: SuperSmootherOwn, o2: SuperSmootherOwn, y: T)
    requires o1.c1 == o2.c1, o1.c2 == o2.c2, o1.c3 == o2.c3, o1.x1 == o2.x1
    ensures super_smoother_own_step(o1, y).f1.v() - super_smoother_own_step(o2, y).f1.v()
        == o1.c2.v() * (o1.f1.v() - o2.f1.v()) + o1.c3.v() * (o1.f2.v() - o2.f2.v())
{
    lemma_lin2(o1.c2.v(), o1.c3.v(), o1.f1.v(), o1.f2.v(), o2.f1.v(), o2.f2.v());
}
// ... whose quadratic form contracts by exactly a1^2 < 1 per step and is non-negative (so the difference dies out)
pub proof fn lemma_two_pole_contraction(a: real, c: real, d0: real, d1: real)
    requires 0real < a < 1real, -1real <= c <= 1real
    ensures ({ let b1 = 2real * a * c; let d2 = b1 * d1 + (-a * a) * d0;
               d2 * d2 - b1 * (d2 * d1) + (a * a) * (d1 * d1) == (a * a) * (d1 * d1 - b1 * (d1 * d0) + (a * a) * (d0 * d0))
               && d1 * d1 - b1 * (d1 * d0) + (a * a) * (d0 * d0) >= 0real && a * a < 1real })
{
    lemma_two_pole_lyapunov(a, c, d0, d1);
    lemma_two_pole_form_nonneg(a, c, d1, d0);
    assert(a * a < 1real) by(nonlinear_arith) requires 0real < a < 1real;
}
// LaguerreFilter: first ladder stage of two runs fed the same value contracts by gamma
pub proof fn lemma_laguerre_first_stage(o1: LaguerreFilterOwn, o2: LaguerreFilterOwn, y: T)
    requires o1.gamma == o2.gamma, o1.started, o2.started
    ensures laguerre_filter_own_step(o1, y).l0.v() - laguerre_filter_own_step(o2, y).l0.v() == o1.gamma.v() * (o1.l0.v() - o2.l0.v())
{
    let g = o1.gamma.v();
    assert(g * (o1.l0.v() - o2.l0.v()) == g * o1.l0.v() - g * o2.l0.v()) by(nonlinear_arith);
}
// Fisher transform: two runs with the same smoothed value differ by half their previous difference; outputs stay within ln 199
pub proof fn lemma_fisher_contracts(sm: real, p1: real, p2: real)
    ensures eft_fish(sm, p1) - eft_fish(sm, p2) == (5real / 10real) * (p1 - p2)
{}
