// C02/C05/C06 at history level for this view (over Echo): abstract window == last N values; closed-form output
use crate::props::c00_window::*;
pub proof fn lemma_run_sma(h: Seq<T>, n: nat)
    requires n >= 1
    ensures ({ let s = run::<Sma<Echo>>((None::<T>, SmaOwn { n: n, w: Seq::<T>::empty() }), h);
               s.0 == echo_of(h) && s.1 == SmaOwn { n: n, w: win(h, n) } })
    decreases h.len()
{
    if h.len() > 0 { lemma_run_sma(h.drop_last(), n); lemma_win_step(h, n); }
    else { assert(win(h, n) =~= Seq::<T>::empty()); }
}
// Sma: arithmetic mean of exactly the last N values once N values have been delivered, silent before
pub proof fn lemma_sma_closed_form(h: Seq<T>, n: nat)
    requires n >= 1
    ensures Sma::<Echo>::out(run::<Sma<Echo>>((None::<T>, SmaOwn { n: n, w: Seq::<T>::empty() }), h))
        == (if h.len() < n { None::<T> } else { Some(mk(rdiv(sum(win(h, n)), n as real))) })
{
    lemma_run_sma(h, n);
}

