// C07: CorrelationTrendIndicator in [-1, 1].  Cauchy-Schwarz for the sums the code forms (window of k <= N values, multiplier N):
// pad both sequences with N - k zeros; then  N*Sxx - Sx^2, N*Syy - Sy^2, N*Sxy - Sx*Sy  are N times the centred sums of the padded
// sequences, for which Cauchy-Schwarz is proved one term at a time.
use crate::props::c00_centered::*;

pub open spec fn idx(k: nat) -> Seq<T> { Seq::new(k, |i: int| mk(i as real)) }
pub proof fn lemma_idx_sums(k: nat)
    ensures sum(idx(k)) == isum(k), sumsq(idx(k)) == isq(k)
    decreases k
{
    if k > 0 {
        lemma_idx_sums((k - 1) as nat);
        assert(idx(k).drop_last() =~= idx((k - 1) as nat));
        assert(idx(k).last().v() == ((k - 1) as real));
    } else { assert(idx(0) =~= Seq::<T>::empty()); }
}
pub proof fn lemma_dot_idx(w: Seq<T>)
    ensures dot(w, idx(w.len())) == ixsum(w)
    decreases w.len()
{
    if w.len() > 0 {
        lemma_dot_idx(w.drop_last());
        assert(idx(w.len()).drop_last() =~= idx(w.drop_last().len()));
        assert(idx(w.len()).last().v() == ((w.len() - 1) as real));
    }
}
pub open spec fn ccross(u: Seq<T>, v: Seq<T>, c: real, e: real) -> real decreases u.len() {
    if u.len() == 0 || v.len() != u.len() { 0real } else { ccross(u.drop_last(), v.drop_last(), c, e) + (u.last().v() - c) * (v.last().v() - e) }
}
pub proof fn lemma_cs_two(u: Seq<T>, v: Seq<T>, c: real, e: real)
    requires u.len() == v.len()
    ensures ccross(u, v, c, e) * ccross(u, v, c, e) <= cssq(u, c) * cssq(v, e), cssq(u, c) >= 0real, cssq(v, e) >= 0real
    decreases u.len()
{
    if u.len() > 0 {
        lemma_cs_two(u.drop_last(), v.drop_last(), c, e);
        lemma_cs_step(ccross(u.drop_last(), v.drop_last(), c, e), cssq(u.drop_last(), c), cssq(v.drop_last(), e), u.last().v() - c, v.last().v() - e);
    } else { assert(0real * 0real <= 0real * 0real) by(nonlinear_arith); }
}
pub proof fn lemma_ccross_sums(u: Seq<T>, v: Seq<T>, c: real, e: real)
    requires u.len() == v.len()
    ensures ccross(u, v, c, e) == dot(u, v) - c * sum(v) - e * sum(u) + (u.len() as real) * (c * e)
    decreases u.len()
{
    if u.len() > 0 {
        lemma_ccross_sums(u.drop_last(), v.drop_last(), c, e);
        let x = u.last().v(); let y = v.last().v(); let k = u.drop_last().len() as real;
        assert(u.len() as real == k + 1real);
        assert((x - c) * (y - e) == x * y - c * y - e * x + c * e) by(nonlinear_arith);
        assert(c * (sum(v.drop_last()) + y) == c * sum(v.drop_last()) + c * y) by(nonlinear_arith);
        assert(e * (sum(u.drop_last()) + x) == e * sum(u.drop_last()) + e * x) by(nonlinear_arith);
        assert((k + 1real) * (c * e) == k * (c * e) + c * e) by(nonlinear_arith);
    } else { assert(c * 0real == 0real && e * 0real == 0real && 0real * (c * e) == 0real) by(nonlinear_arith); }
}
// cov^2 <= vx * vy for the sums CTI forms, for every window of k <= N values
pub proof fn lemma_cti_cauchy_schwarz(w: Seq<T>, n: nat)
    requires n >= 1, w.len() <= n
    ensures cti_cov(w, n as real) * cti_cov(w, n as real) <= cti_vx(w, n as real) * cti_vy(w, n as real)
{
    let k = w.len(); let nn = n as real; let kk = k as real; let j = (n - k) as nat;
    let ys = idx(k);
    lemma_idx_sums(k); lemma_dot_idx(w);
    let s1 = sum(w); let s2 = isum(k); let sxx = sumsq(w); let syy = isq(k); let sxy = ixsum(w);
    let m = rdiv(s1, nn); let e = rdiv(s2, nn);
    lemma_rdiv_mul(s1, nn); lemma_rdiv_mul(s2, nn);
    lemma_cs_two(w, ys, m, e);
    lemma_cs_pad(ccross(w, ys, m, e), cssq(w, m), cssq(ys, e), -m, -e, j);
    let jr = j as real;
    assert(jr == nn - kk);
    let cross = ccross(w, ys, m, e) + jr * ((-m) * (-e)); let qx = cssq(w, m) + jr * ((-m) * (-m)); let qy = cssq(ys, e) + jr * ((-e) * (-e));
    assert(cross * cross <= qx * qy);
    lemma_ccross_sums(w, ys, m, e); lemma_centered_sums(w, m); lemma_centered_sums(ys, e);
    assert((-m) * (-e) == m * e && (-m) * (-m) == m * m && (-e) * (-e) == e * e) by(nonlinear_arith);
    assert(kk * (m * e) + jr * (m * e) == nn * (m * e)) by(nonlinear_arith) requires jr == nn - kk;
    assert(kk * (m * m) + jr * (m * m) == nn * (m * m)) by(nonlinear_arith) requires jr == nn - kk;
    assert(kk * (e * e) + jr * (e * e) == nn * (e * e)) by(nonlinear_arith) requires jr == nn - kk;
    lemma_centered_times_n(nn, m, e, s1, s2, sxy, cross);
    assert(2real * m * s1 == m * s1 + m * s1) by(nonlinear_arith);
    lemma_centered_times_n(nn, m, m, s1, s1, sxx, qx);
    assert(2real * e * s2 == e * s2 + e * s2) by(nonlinear_arith);
    lemma_centered_times_n(nn, e, e, s2, s2, syy, qy);
    lemma_scale_cs(cross, qx, qy, nn, cross * nn, qx * nn, qy * nn);
}
// hence every value CTI reports lies in [-1, 1]
pub proof fn lemma_cti_range(w: Seq<T>, n: nat)
    requires n >= 1, w.len() <= n
    ensures -1real <= cti_of(w, n as real) <= 1real
{
    let nn = n as real; let vx = cti_vx(w, nn); let vy = cti_vy(w, nn); let cov = cti_cov(w, nn);
    if vx > 0real && vy > 0real {
        lemma_cti_cauchy_schwarz(w, n);
        lemma_mul_pos(vx, vy);
        let d = vx * vy; let s = r_sqrt(d);
        ax_sqrt(d); lemma_sqrt_pos(d);
        lemma_abs_le_from_squares(cov, s);
        lemma_rdiv_sign(cov, s);
    }
}
use crate::props::c00_window::*;
use crate::props::c06_h_cti::*;
// every value CTI reports after any history lies in [-1, 1], and the clamp in the code never acts in exact arithmetic: the reported value
// IS the Pearson correlation of the values present (k = number of values in the window, also while it fills up)
pub proof fn lemma_cti_range_history(h: Seq<T>, n: nat)
    requires n >= 1
    ensures ({ let o = CorrelationTrendIndicator::<Echo>::out(run::<CorrelationTrendIndicator<Echo>>((None::<T>, CorrelationTrendIndicatorOwn { n: n, w: Seq::<T>::empty() }), h));
               o.is_some() && -1real <= o.unwrap().v() <= 1real && o == Some(mk(cti_of(win(h, n), win(h, n).len() as real))) })
{
    lemma_run_cti(h, n);
    if h.len() > 0 { lemma_cti_range(win(h, n), win(h, n).len()); }
    else { assert(win(h, n) =~= Seq::<T>::empty()); assert(0real * sumsq(win(h, n)) == 0real) by(nonlinear_arith); }
}
