// C04 for Alma: the normalised positively weighted mean reproduces constants, is monotone and commutes with x -> a x + b
use crate::props::c00_affine::*;
use crate::props::c04_averages::*;

pub proof fn lemma_dot_affine(g: Seq<T>, w: Seq<T>, a: real, b: real)
    requires g.len() == w.len()
    ensures dot(g, affine(w, a, b)) == a * dot(g, w) + b * sum(g)
    decreases g.len()
{
    if g.len() > 0 {
        lemma_dot_affine(g.drop_last(), w.drop_last(), a, b);
        assert(affine(w, a, b).drop_last() =~= affine(w.drop_last(), a, b));
        let gx = g.last().v(); let x = w.last().v();
        assert(affine(w, a, b).last().v() == a * x + b);
        assert(gx * (a * x + b) == a * (gx * x) + b * gx) by(nonlinear_arith);
        assert(a * (dot(g.drop_last(), w.drop_last()) + gx * x) == a * dot(g.drop_last(), w.drop_last()) + a * (gx * x)) by(nonlinear_arith);
        assert(b * (sum(g.drop_last()) + gx) == b * sum(g.drop_last()) + b * gx) by(nonlinear_arith);
    } else { assert(a * 0real + b * 0real == 0real) by(nonlinear_arith); }
}
pub proof fn lemma_alma_affine(g: Seq<T>, w: Seq<T>, a: real, b: real)
    requires g.len() == w.len(), w.len() > 0, all_pos(g)
    ensures rdiv(dot(g, affine(w, a, b)), sum(g)) == a * rdiv(dot(g, w), sum(g)) + b
{
    lemma_dot_affine(g, w, a, b); lemma_all_pos_sum(g);
    let sg = sum(g); let m = rdiv(dot(g, w), sg); lemma_rdiv_mul(dot(g, w), sg);
    assert((a * m + b) * sg == a * (m * sg) + b * sg) by(nonlinear_arith);
    lemma_rdiv_unique(a * m + b, dot(g, affine(w, a, b)), sg);
}
pub proof fn lemma_dot_monotone(g: Seq<T>, u: Seq<T>, w: Seq<T>)
    requires g.len() == u.len(), pointwise_le(u, w), all_pos(g)
    ensures dot(g, u) <= dot(g, w)
    decreases g.len()
{
    if g.len() > 0 {
        assert(pointwise_le(u.drop_last(), w.drop_last())) by {
            assert forall|i: int| 0 <= i < u.drop_last().len() implies (#[trigger] u.drop_last()[i]).v() <= w.drop_last()[i].v() by { assert(u.drop_last()[i] == u[i]); assert(w.drop_last()[i] == w[i]); } }
        assert(all_pos(g.drop_last())) by { assert forall|i: int| 0 <= i < g.drop_last().len() implies (#[trigger] g.drop_last()[i]).v() > 0real by { assert(g.drop_last()[i] == g[i]); } }
        lemma_dot_monotone(g.drop_last(), u.drop_last(), w.drop_last());
        assert(g.last() == g[g.len() - 1]); assert(u.last() == u[u.len() - 1]); assert(w.last() == w[w.len() - 1]);
        assert(g.last().v() * u.last().v() <= g.last().v() * w.last().v()) by(nonlinear_arith) requires g.last().v() > 0real, u.last().v() <= w.last().v();
    }
}
pub proof fn lemma_alma_monotone(g: Seq<T>, u: Seq<T>, w: Seq<T>)
    requires g.len() == u.len(), u.len() > 0, pointwise_le(u, w), all_pos(g)
    ensures rdiv(dot(g, u), sum(g)) <= rdiv(dot(g, w), sum(g))
{
    lemma_dot_monotone(g, u, w); lemma_all_pos_sum(g);
    let sg = sum(g);
    lemma_rdiv_mul(dot(g, u), sg); lemma_rdiv_mul(dot(g, w), sg);
    assert(rdiv(dot(g, u), sg) <= rdiv(dot(g, w), sg)) by(nonlinear_arith) requires rdiv(dot(g, u), sg) * sg == dot(g, u), rdiv(dot(g, w), sg) * sg == dot(g, w), dot(g, u) <= dot(g, w), sg > 0real;
}
pub proof fn lemma_alma_constant(g: Seq<T>, w: Seq<T>, c: real)
    requires g.len() == w.len(), w.len() > 0, all_pos(g), all_eq(w, c)
    ensures rdiv(dot(g, w), sum(g)) == c
{
    lemma_alma_in_hull(g, w);
    lemma_smin_is_min(w); lemma_smax_is_max(w);
}
