#!/bin/sh
# usage: confirm_refactor.sh <deliver-dir> <name>   - confirms a candidate behaviour-preserving refactoring in a scratch worktree and stores it under /verif/refactors/<name>
# checks: patch applies; existing tests pass with the patch; the bit-level checksum demo passes on the clean tree AND with the patch
set -u
D=$1; NAME=$2; WT=${CONFIRM_WT:-/tmp/confirm_wt}
[ -d $WT ] || git -C /repo worktree add -q --detach $WT HEAD
cd $WT && git checkout -q --detach $(git -C /repo rev-parse HEAD) && git checkout -- . && git clean -fdq -e target
mkdir -p tests && cp $D/demo.rs tests/demo.rs
export CARGO_NET_OFFLINE=true
clean_demo=$(cargo test --offline --test demo 2>&1 | grep -E "^test result" | head -1)
git apply $D/patch.diff || { echo "PATCH DOES NOT APPLY"; exit 1; }
suite=$(cargo test --offline --lib 2>&1 | grep -E "^test result" | head -1)
ref_demo=$(cargo test --offline --test demo 2>&1 | grep -E "^test result" | head -1)
git checkout -- . ; rm -rf tests
echo "clean demo : $clean_demo"; echo "suite+ref  : $suite"; echo "demo+ref   : $ref_demo"
case "$clean_demo" in *"0 failed"*) ;; *) echo "REJECT: demo fails on clean tree"; exit 1;; esac
case "$suite" in *"43 passed; 0 failed"*) ;; *) echo "REJECT: suite fails with the refactoring"; exit 1;; esac
case "$ref_demo" in *"0 failed"*) ;; *) echo "REJECT: demo fails with the refactoring (behaviour changed)"; exit 1;; esac
mkdir -p /verif/refactors/$NAME && cp $D/patch.diff $D/demo.rs /verif/refactors/$NAME/ && cp $D/notes.md /verif/refactors/$NAME/notes.md 2>/dev/null
echo "CONFIRMED $NAME"
