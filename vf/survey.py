#!/usr/bin/env python3
"""run the whole generated file once and list every failed obligation with its attribution (development aid)"""
import os, sys, json
sys.path.insert(0, os.path.dirname(os.path.abspath(__file__)))
import extract, driver
repo = os.environ.get('VERIF_REPO', '/repo')
extract.REPO = repo
gen = os.path.join(driver.ROOT, 'gen', 'survey.rs')
rep = extract.build(gen)
gl = open(gen).read().split('\n')
mods = ['views::' + m for m in rep['modules']] + ['lem', 'alg', 'alg2'] + ['props::' + os.path.basename(p)[:-3] for p in sorted(os.listdir(os.path.join(driver.VF, 'props'))) if p.endswith('.rs')]
if len(sys.argv) > 1: mods = sys.argv[1:]
res = driver.run_verus(gen, mods, rlimit=int(os.environ.get('RLIMIT', '200')), timeout=1800)
errs = driver.parse_stderr(res['stderr'])
print('verus:', res['json'] and res['json']['verification-results'], 'wall %.1fs' % res['wall'])
seen = set()
for e in errs:
    f = driver.attribute(e, rep, gl)
    key = (f['module'], f['fn'], f['label'])
    if key in seen: continue
    seen.add(key)
    print('%-32s %-22s %-28s %-24s %s' % (f['module'], f['fn'], f['label'][:28], ','.join(f['tags']), f['msg'][:50]))
