// pure real algebra (no sequences, no scalars): kept in its own module so that the SMT context stays minimal
use vstd::prelude::*;
pub proof fn welford_key_fact(n: real, mu: real, s: real, q: real, m2: real)
    requires n >= 1real, mu * n == s, m2 * n == n * q - s * s
    ensures m2 + mu * s == q
{
    let a = m2 + mu * s - q;
    assert(a * n == m2 * n + s * (mu * n) - n * q) by(nonlinear_arith) requires a == m2 + mu * s - q;
    assert(s * (mu * n) == s * s) by(nonlinear_arith) requires mu * n == s;
    assert(a * n == 0real);
    assert(a == 0real) by(nonlinear_arith) requires a * n == 0real, n >= 1real;
}
pub proof fn welford_add_core(n: real, mu: real, s: real, q: real, m2: real, x: real, e: real, mu1: real, m21: real)
    requires n >= 1real, mu * n == s, m2 * n == n * q - s * s, e * (n + 1real) == x - mu, mu1 == mu + e, m21 == m2 + (x - mu) * (x - mu1)
    ensures mu1 * (n + 1real) == s + x, m21 * (n + 1real) == (n + 1real) * (q + x * x) - (s + x) * (s + x)
{
    let d = x - mu;
    assert(mu1 * (n + 1real) == mu * n + mu + e * (n + 1real)) by(nonlinear_arith) requires mu1 == mu + e;
    welford_key_fact(n, mu, s, q, m2);
    let z = d - e * (n + 1real);
    assert(z == 0real);
    assert(m21 * (n + 1real) == m2 * n + m2 + d * d * n + d * z) by(nonlinear_arith)
        requires m21 == m2 + d * (d - e), z == d - e * (n + 1real);
    assert(d * z == 0real) by(nonlinear_arith) requires z == 0real;
    assert(d * d * n == n * (x * x) - 2real * x * (mu * n) + mu * (mu * n)) by(nonlinear_arith) requires d == x - mu;
    assert(x * (mu * n) == x * s) by(nonlinear_arith) requires mu * n == s;
    assert(mu * (mu * n) == mu * s) by(nonlinear_arith) requires mu * n == s;
    let xx = x * x;
    assert((n + 1real) * (q + xx) == n * q + n * xx + q + xx) by(nonlinear_arith);
    assert((s + x) * (s + x) == s * s + 2real * x * s + x * x) by(nonlinear_arith);
}
pub proof fn welford_remove_core(n: real, mu: real, s: real, q: real, m2: real, x: real, e: real, mu1: real, m21: real)
    requires n >= 2real, mu * n == s, m2 * n == n * q - s * s, e * (n - 1real) == x - mu, mu1 == mu - e, m21 == m2 - (x - mu) * (x - mu1)
    ensures mu1 * (n - 1real) == s - x, m21 * (n - 1real) == (n - 1real) * (q - x * x) - (s - x) * (s - x)
{
    let d = x - mu;
    assert(mu1 * (n - 1real) == mu * n - mu - e * (n - 1real)) by(nonlinear_arith) requires mu1 == mu - e;
    welford_key_fact(n, mu, s, q, m2);
    // x - mu1 = d + e ; m21 = m2 - d(d+e); m21 (n-1) = m2 n - m2 - d d (n-1) - d e (n-1) = m2 n - m2 - d d n + d d - d d = m2 n - m2 - d d n
    let z = e * (n - 1real) - d;
    assert(z == 0real);
    assert(m21 * (n - 1real) == m2 * n - m2 - d * d * n - d * z) by(nonlinear_arith)
        requires m21 == m2 - d * (d + e), z == e * (n - 1real) - d;
    assert(d * z == 0real) by(nonlinear_arith) requires z == 0real;
    assert(d * d * n == n * (x * x) - 2real * x * (mu * n) + mu * (mu * n)) by(nonlinear_arith) requires d == x - mu;
    assert(x * (mu * n) == x * s) by(nonlinear_arith) requires mu * n == s;
    assert(mu * (mu * n) == mu * s) by(nonlinear_arith) requires mu * n == s;
    let xx = x * x;
    assert((n - 1real) * (q - xx) == n * q - n * xx - q + xx) by(nonlinear_arith);
    assert((s - x) * (s - x) == s * s - 2real * x * s + x * x) by(nonlinear_arith);
}

pub proof fn lemma_mul_dist(a: real, b: real, c: real) ensures (a + b) * c == a * c + b * c
{ assert((a + b) * c == a * c + b * c) by(nonlinear_arith); }
pub proof fn lemma_mul_zero(a: real) ensures 0real * a == 0real
{ assert(0real * a == 0real) by(nonlinear_arith); }
// 100 - 100/(1 + ag/al) == 100 G/(G+L)  with G = ag n, L = al n (the RSI identity), and the inner denominators are non-zero
pub proof fn lemma_rsi_identity(ag: real, al: real, n: real, g: real, l: real, rs: real, inner: real, res: real)
    requires n > 0real, ag * n == g, al * n == l, ag >= 0real, al > 0real,
        rs * al == ag, inner * (1real + rs) == 100real, res * (g + l) == 100real * g,
    ensures 1real + rs > 0real, g + l > 0real, 100real - inner == res
{
    assert(rs >= 0real) by(nonlinear_arith) requires rs * al == ag, ag >= 0real, al > 0real;
    assert(l > 0real) by(nonlinear_arith) requires al * n == l, al > 0real, n > 0real;
    assert(g >= 0real) by(nonlinear_arith) requires ag * n == g, ag >= 0real, n > 0real;
    // g + l = n (ag + al) = n al (rs + 1)
    assert(g + l == (n * al) * (1real + rs)) by(nonlinear_arith) requires ag * n == g, al * n == l, rs * al == ag;
    // res * (g+l) = 100 g ; (100 - inner) * (g + l) = 100 (g+l) - inner (1+rs) (n al) = 100 (g + l) - 100 n al = 100 (g+l) - 100 l = 100 g
    assert(inner * ((n * al) * (1real + rs)) == (inner * (1real + rs)) * (n * al)) by(nonlinear_arith);
    assert((inner * (1real + rs)) * (n * al) == 100real * l) by(nonlinear_arith) requires inner * (1real + rs) == 100real, al * n == l;
    let gl = g + l;
    assert((100real - inner) * gl == 100real * gl - inner * gl) by(nonlinear_arith);
    assert(inner * gl == 100real * l) by(nonlinear_arith) requires gl == (n * al) * (1real + rs), inner * ((n * al) * (1real + rs)) == 100real * l;
    assert((100real - inner) * gl == res * gl);
    assert(100real - inner == res) by(nonlinear_arith) requires (100real - inner) * gl == res * gl, gl > 0real;
}
