// pure real algebra (no sequences, no scalars): kept in its own module so that the SMT context stays minimal
use vstd::prelude::*;
pub proof fn welford_key_fact(n: real, mu: real, s: real, q: real, m2: real)
    requires n >= 1real, mu * n == s, m2 * n == n * q - s * s
    ensures m2 + mu * s == q
{
    let a = m2 + mu * s - q;
    assert(a * n == m2 * n + s * (mu * n) - n * q) by(nonlinear_arith) requires a == m2 + mu * s - q;
    assert(s * (mu * n) == s * s) by(nonlinear_arith) requires mu * n == s;
    assert(a * n == 0real);
    assert(a == 0real) by(nonlinear_arith) requires a * n == 0real, n >= 1real;
}
pub proof fn welford_add_core(n: real, mu: real, s: real, q: real, m2: real, x: real, e: real, mu1: real, m21: real)
    requires n >= 1real, mu * n == s, m2 * n == n * q - s * s, e * (n + 1real) == x - mu, mu1 == mu + e, m21 == m2 + (x - mu) * (x - mu1)
    ensures mu1 * (n + 1real) == s + x, m21 * (n + 1real) == (n + 1real) * (q + x * x) - (s + x) * (s + x)
{
    let d = x - mu;
    assert(mu1 * (n + 1real) == mu * n + mu + e * (n + 1real)) by(nonlinear_arith) requires mu1 == mu + e;
    welford_key_fact(n, mu, s, q, m2);
    let z = d - e * (n + 1real);
    assert(z == 0real);
    assert(m21 * (n + 1real) == m2 * n + m2 + d * d * n + d * z) by(nonlinear_arith)
        requires m21 == m2 + d * (d - e), z == d - e * (n + 1real);
    assert(d * z == 0real) by(nonlinear_arith) requires z == 0real;
    assert(d * d * n == n * (x * x) - 2real * x * (mu * n) + mu * (mu * n)) by(nonlinear_arith) requires d == x - mu;
    assert(x * (mu * n) == x * s) by(nonlinear_arith) requires mu * n == s;
    assert(mu * (mu * n) == mu * s) by(nonlinear_arith) requires mu * n == s;
    let xx = x * x;
    assert((n + 1real) * (q + xx) == n * q + n * xx + q + xx) by(nonlinear_arith);
    assert((s + x) * (s + x) == s * s + 2real * x * s + x * x) by(nonlinear_arith);
}
pub proof fn welford_remove_core(n: real, mu: real, s: real, q: real, m2: real, x: real, e: real, mu1: real, m21: real)
    requires n >= 2real, mu * n == s, m2 * n == n * q - s * s, e * (n - 1real) == x - mu, mu1 == mu - e, m21 == m2 - (x - mu) * (x - mu1)
    ensures mu1 * (n - 1real) == s - x, m21 * (n - 1real) == (n - 1real) * (q - x * x) - (s - x) * (s - x)
{
    let d = x - mu;
    assert(mu1 * (n - 1real) == mu * n - mu - e * (n - 1real)) by(nonlinear_arith) requires mu1 == mu - e;
    welford_key_fact(n, mu, s, q, m2);
    // x - mu1 = d + e ; m21 = m2 - d(d+e); m21 (n-1) = m2 n - m2 - d d (n-1) - d e (n-1) = m2 n - m2 - d d n + d d - d d = m2 n - m2 - d d n
    let z = e * (n - 1real) - d;
    assert(z == 0real);
    assert(m21 * (n - 1real) == m2 * n - m2 - d * d * n - d * z) by(nonlinear_arith)
        requires m21 == m2 - d * (d + e), z == e * (n - 1real) - d;
    assert(d * z == 0real) by(nonlinear_arith) requires z == 0real;
    assert(d * d * n == n * (x * x) - 2real * x * (mu * n) + mu * (mu * n)) by(nonlinear_arith) requires d == x - mu;
    assert(x * (mu * n) == x * s) by(nonlinear_arith) requires mu * n == s;
    assert(mu * (mu * n) == mu * s) by(nonlinear_arith) requires mu * n == s;
    let xx = x * x;
    assert((n - 1real) * (q - xx) == n * q - n * xx - q + xx) by(nonlinear_arith);
    assert((s - x) * (s - x) == s * s - 2real * x * s + x * x) by(nonlinear_arith);
}

pub proof fn lemma_mul_dist(a: real, b: real, c: real) ensures (a + b) * c == a * c + b * c
{ assert((a + b) * c == a * c + b * c) by(nonlinear_arith); }
pub proof fn lemma_mul_zero(a: real) ensures 0real * a == 0real
{ assert(0real * a == 0real) by(nonlinear_arith); }
// 100 - 100/(1 + ag/al) == 100 G/(G+L)  with G = ag n, L = al n (the RSI identity), and the inner denominators are non-zero
pub proof fn lemma_rsi_identity(ag: real, al: real, n: real, g: real, l: real, rs: real, inner: real, res: real)
    requires n > 0real, ag * n == g, al * n == l, ag >= 0real, al > 0real,
        rs * al == ag, inner * (1real + rs) == 100real, res * (g + l) == 100real * g,
    ensures 1real + rs > 0real, g + l > 0real, 100real - inner == res
{
    assert(rs >= 0real) by(nonlinear_arith) requires rs * al == ag, ag >= 0real, al > 0real;
    assert(l > 0real) by(nonlinear_arith) requires al * n == l, al > 0real, n > 0real;
    assert(g >= 0real) by(nonlinear_arith) requires ag * n == g, ag >= 0real, n > 0real;
    // g + l = n (ag + al) = n al (rs + 1)
    assert(g + l == (n * al) * (1real + rs)) by(nonlinear_arith) requires ag * n == g, al * n == l, rs * al == ag;
    // res * (g+l) = 100 g ; (100 - inner) * (g + l) = 100 (g+l) - inner (1+rs) (n al) = 100 (g + l) - 100 n al = 100 (g+l) - 100 l = 100 g
    assert(inner * ((n * al) * (1real + rs)) == (inner * (1real + rs)) * (n * al)) by(nonlinear_arith);
    assert((inner * (1real + rs)) * (n * al) == 100real * l) by(nonlinear_arith) requires inner * (1real + rs) == 100real, al * n == l;
    let gl = g + l;
    assert((100real - inner) * gl == 100real * gl - inner * gl) by(nonlinear_arith);
    assert(inner * gl == 100real * l) by(nonlinear_arith) requires gl == (n * al) * (1real + rs), inner * ((n * al) * (1real + rs)) == 100real * l;
    assert((100real - inner) * gl == res * gl);
    assert(100real - inner == res) by(nonlinear_arith) requires (100real - inner) * gl == res * gl, gl > 0real;
}

pub proof fn lemma_mul_pos(a: real, b: real) requires a > 0real, b > 0real ensures a * b > 0real
{ assert(a * b > 0real) by(nonlinear_arith) requires a > 0real, b > 0real; }

// Jury stability conditions of z^2 - c2 z - c3 with c2 = 2 a cos, c3 = -a^2, 0 < a < 1, |cos| <= 1
pub proof fn lemma_two_pole_coeffs(a: real, cv: real, c2: real, c3: real)
    requires 0real < a < 1real, -1real <= cv <= 1real, c2 == 2real * a * cv, c3 == -a * a
    ensures -1real < c3 < 0real, c2 < 1real - c3, -c2 < 1real - c3
{
    assert(0real < a * a < 1real) by(nonlinear_arith) requires 0real < a < 1real;
    assert(-a * a == -(a * a)) by(nonlinear_arith);
    assert(2real * a * cv <= 2real * a) by(nonlinear_arith) requires a > 0real, cv <= 1real;
    assert(2real * a * cv >= -(2real * a)) by(nonlinear_arith) requires a > 0real, cv >= -1real;
    assert(2real * a < 1real + a * a) by(nonlinear_arith) requires 0real < a < 1real;
}
pub proof fn lemma_sq_nonneg(x: real) ensures x * x >= 0real
{ assert(x * x >= 0real) by(nonlinear_arith); }

// 0 < (c + s - 1)/c < 2  for c, s > 0 on the unit circle (Roofing filter high-pass coefficient)
pub proof fn lemma_roofing_alpha_core(c: real, s: real, q: real)
    requires c > 0real, s > 0real, c * c + s * s == 1real, q * c == c + s - 1real
    ensures 0real < q < 2real
{
    // c + s > 1 since (c+s)^2 = 1 + 2cs > 1 ; and s - 1 < c since s < 1 (as c > 0)
    assert((c + s) * (c + s) == c * c + s * s + 2real * (c * s)) by(nonlinear_arith);
    assert(c * s > 0real) by(nonlinear_arith) requires c > 0real, s > 0real;
    assert(c + s > 1real) by(nonlinear_arith) requires (c + s) * (c + s) > 1real, c + s > 0real;
    assert(s < 1real) by(nonlinear_arith) requires c * c + s * s == 1real, c > 0real, s > 0real;
    assert(q > 0real) by(nonlinear_arith) requires q * c == c + s - 1real, c + s > 1real, c > 0real;
    assert(q < 2real) by(nonlinear_arith) requires q * c == c + s - 1real, s < 1real, c > 0real;
}

pub proof fn lemma_mul_comm(a: real, b: real) ensures a * b == b * a
{ assert(a * b == b * a) by(nonlinear_arith); }
pub proof fn lemma_affine_mix(a: real, b: real, x: real, e: real, w: real)
    ensures (a * x + b) * w + (a * e + b) * (1real - w) == a * (x * w + e * (1real - w)) + b
{
    assert((a * x + b) * w == a * (x * w) + b * w) by(nonlinear_arith);
    assert((a * e + b) * (1real - w) == a * (e * (1real - w)) + b * (1real - w)) by(nonlinear_arith);
    assert(b * w + b * (1real - w) == b) by(nonlinear_arith);
    assert(a * (x * w + e * (1real - w)) == a * (x * w) + a * (e * (1real - w))) by(nonlinear_arith);
}

// homogeneous two-pole recursion f2 = b1 f1 + c3 f0 with b1 = 2 a c, c3 = -a^2: the quadratic form V(u,v) = u^2 - b1 u v + a^2 v^2
// contracts by exactly a^2 per step (Lyapunov identity) and is non-negative for |c| <= 1
pub proof fn lemma_two_pole_lyapunov(a: real, c: real, f0: real, f1: real)
    ensures ({ let b1 = 2real * a * c; let f2 = b1 * f1 + (-a * a) * f0;
               f2 * f2 - b1 * (f2 * f1) + (a * a) * (f1 * f1) == (a * a) * (f1 * f1 - b1 * (f1 * f0) + (a * a) * (f0 * f0)) })
{
    let b1 = 2real * a * c; let aa = a * a; let f2 = b1 * f1 + (-a * a) * f0;
    assert((-a * a) * f0 == -(aa * f0)) by(nonlinear_arith) requires aa == a * a;
    let g = f2 - b1 * f1;                      // = -aa f0
    assert(g == -(aa * f0));
    assert(f2 * f2 - b1 * (f2 * f1) == f2 * g) by(nonlinear_arith) requires g == f2 - b1 * f1;
    assert(f2 * g == -(aa * f0) * f2) by(nonlinear_arith) requires g == -(aa * f0);
    assert(-(aa * f0) * f2 == -(aa * f0) * (b1 * f1) + (aa * f0) * (aa * f0)) by(nonlinear_arith) requires f2 == b1 * f1 - aa * f0;
    assert((aa * f0) * (b1 * f1) == aa * (b1 * (f1 * f0))) by(nonlinear_arith);
    assert((aa * f0) * (aa * f0) == aa * (aa * (f0 * f0))) by(nonlinear_arith);
    assert(aa * (f1 * f1 - b1 * (f1 * f0) + aa * (f0 * f0)) == aa * (f1 * f1) - aa * (b1 * (f1 * f0)) + aa * (aa * (f0 * f0))) by(nonlinear_arith);
    assert(f2 == b1 * f1 - aa * f0);
    assert(-(aa * f0) * (b1 * f1) == -((aa * f0) * (b1 * f1))) by(nonlinear_arith);
    assert(f2 * f2 - b1 * (f2 * f1) + aa * (f1 * f1) == aa * (f1 * f1 - b1 * (f1 * f0) + aa * (f0 * f0)));
}
pub proof fn lemma_two_pole_form_nonneg(a: real, c: real, u: real, v: real)
    requires -1real <= c <= 1real
    ensures u * u - (2real * a * c) * (u * v) + (a * a) * (v * v) >= 0real
{
    let w = a * v;
    // u^2 - 2 c u w + w^2 = (u - c w)^2 + (1 - c^2) w^2 >= 0
    assert((2real * a * c) * (u * v) == 2real * c * (u * w)) by(nonlinear_arith) requires w == a * v;
    assert((a * a) * (v * v) == w * w) by(nonlinear_arith) requires w == a * v;
    assert(u * u - 2real * c * (u * w) + w * w == (u - c * w) * (u - c * w) + (1real - c * c) * (w * w)) by(nonlinear_arith);
    assert((u - c * w) * (u - c * w) >= 0real) by(nonlinear_arith);
    assert((1real - c * c) * (w * w) >= 0real) by(nonlinear_arith) requires -1real <= c <= 1real;
}
pub proof fn lemma_lin2(c2: real, c3: real, a1: real, a0: real, b1: real, b0: real)
    ensures (c2 * a1 + c3 * a0) - (c2 * b1 + c3 * b0) == c2 * (a1 - b1) + c3 * (a0 - b0)
{
    assert(c2 * (a1 - b1) == c2 * a1 - c2 * b1) by(nonlinear_arith);
    assert(c3 * (a0 - b0) == c3 * a0 - c3 * b0) by(nonlinear_arith);
}
pub proof fn lemma_convex_diff(w: real, e1: real, e2: real, x: real)
    ensures (x * w + e1 * (1real - w)) - (x * w + e2 * (1real - w)) == (1real - w) * (e1 - e2)
{
    assert((1real - w) * (e1 - e2) == e1 * (1real - w) - e2 * (1real - w)) by(nonlinear_arith);
}

pub proof fn lemma_lin_div(a: real, b: real, su: real, sw: real, k: real, mu: real, mw: real)
    requires k != 0real, mu * k == su, mw * k == sw
    ensures (a * mu + b * mw) * k == a * su + b * sw
{
    assert((a * mu + b * mw) * k == a * (mu * k) + b * (mw * k)) by(nonlinear_arith);
}
pub proof fn lemma_lin_step(a: real, b: real, p: real, q: real, x: real, y: real, c: real)
    ensures (a * p + b * q) + c * (a * x + b * y) == a * (p + c * x) + b * (q + c * y)
{
    assert(c * (a * x + b * y) == a * (c * x) + b * (c * y)) by(nonlinear_arith);
    assert(a * (p + c * x) == a * p + a * (c * x)) by(nonlinear_arith);
    assert(b * (q + c * y) == b * q + b * (c * y)) by(nonlinear_arith);
}
pub proof fn lemma_lin_mul(a: real, b: real, x: real, y: real, c: real)
    ensures c * (a * x + b * y) == a * (c * x) + b * (c * y), (a * x + b * y) * c == a * (x * c) + b * (y * c)
{
    assert(c * (a * x + b * y) == a * (c * x) + b * (c * y)) by(nonlinear_arith);
    assert((a * x + b * y) * c == a * (x * c) + b * (y * c)) by(nonlinear_arith);
}
pub proof fn lemma_lin_add(a: real, b: real, x1: real, y1: real, x2: real, y2: real)
    ensures (a * x1 + b * y1) + (a * x2 + b * y2) == a * (x1 + x2) + b * (y1 + y2), (a * x1 + b * y1) - (a * x2 + b * y2) == a * (x1 - x2) + b * (y1 - y2)
{
    assert(a * (x1 + x2) == a * x1 + a * x2) by(nonlinear_arith);
    assert(b * (y1 + y2) == b * y1 + b * y2) by(nonlinear_arith);
    assert(a * (x1 - x2) == a * x1 - a * x2) by(nonlinear_arith);
    assert(b * (y1 - y2) == b * y1 - b * y2) by(nonlinear_arith);
}

