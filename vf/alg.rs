// pure real algebra (no sequences, no scalars): kept in its own module so that the SMT context stays minimal
use vstd::prelude::*;
pub proof fn welford_key_fact(n: real, mu: real, s: real, q: real, m2: real)
    requires n >= 1real, mu * n == s, m2 * n == n * q - s * s
    ensures m2 + mu * s == q
{
    let a = m2 + mu * s - q;
    assert(a * n == m2 * n + s * (mu * n) - n * q) by(nonlinear_arith) requires a == m2 + mu * s - q;
    assert(s * (mu * n) == s * s) by(nonlinear_arith) requires mu * n == s;
    assert(a * n == 0real);
    assert(a == 0real) by(nonlinear_arith) requires a * n == 0real, n >= 1real;
}
pub proof fn welford_add_core(n: real, mu: real, s: real, q: real, m2: real, x: real, e: real, mu1: real, m21: real)
    requires n >= 1real, mu * n == s, m2 * n == n * q - s * s, e * (n + 1real) == x - mu, mu1 == mu + e, m21 == m2 + (x - mu) * (x - mu1)
    ensures mu1 * (n + 1real) == s + x, m21 * (n + 1real) == (n + 1real) * (q + x * x) - (s + x) * (s + x)
{
    let d = x - mu;
    assert(mu1 * (n + 1real) == mu * n + mu + e * (n + 1real)) by(nonlinear_arith) requires mu1 == mu + e;
    welford_key_fact(n, mu, s, q, m2);
    let z = d - e * (n + 1real);
    assert(z == 0real);
    assert(m21 * (n + 1real) == m2 * n + m2 + d * d * n + d * z) by(nonlinear_arith)
        requires m21 == m2 + d * (d - e), z == d - e * (n + 1real);
    assert(d * z == 0real) by(nonlinear_arith) requires z == 0real;
    assert(d * d * n == n * (x * x) - 2real * x * (mu * n) + mu * (mu * n)) by(nonlinear_arith) requires d == x - mu;
    assert(x * (mu * n) == x * s) by(nonlinear_arith) requires mu * n == s;
    assert(mu * (mu * n) == mu * s) by(nonlinear_arith) requires mu * n == s;
    let xx = x * x;
    assert((n + 1real) * (q + xx) == n * q + n * xx + q + xx) by(nonlinear_arith);
    assert((s + x) * (s + x) == s * s + 2real * x * s + x * x) by(nonlinear_arith);
}
pub proof fn welford_remove_core(n: real, mu: real, s: real, q: real, m2: real, x: real, e: real, mu1: real, m21: real)
    requires n >= 2real, mu * n == s, m2 * n == n * q - s * s, e * (n - 1real) == x - mu, mu1 == mu - e, m21 == m2 - (x - mu) * (x - mu1)
    ensures mu1 * (n - 1real) == s - x, m21 * (n - 1real) == (n - 1real) * (q - x * x) - (s - x) * (s - x)
{
    let d = x - mu;
    assert(mu1 * (n - 1real) == mu * n - mu - e * (n - 1real)) by(nonlinear_arith) requires mu1 == mu - e;
    welford_key_fact(n, mu, s, q, m2);
    // x - mu1 = d + e ; m21 = m2 - d(d+e); m21 (n-1) = m2 n - m2 - d d (n-1) - d e (n-1) = m2 n - m2 - d d n + d d - d d = m2 n - m2 - d d n
    let z = e * (n - 1real) - d;
    assert(z == 0real);
    assert(m21 * (n - 1real) == m2 * n - m2 - d * d * n - d * z) by(nonlinear_arith)
        requires m21 == m2 - d * (d + e), z == e * (n - 1real) - d;
    assert(d * z == 0real) by(nonlinear_arith) requires z == 0real;
    assert(d * d * n == n * (x * x) - 2real * x * (mu * n) + mu * (mu * n)) by(nonlinear_arith) requires d == x - mu;
    assert(x * (mu * n) == x * s) by(nonlinear_arith) requires mu * n == s;
    assert(mu * (mu * n) == mu * s) by(nonlinear_arith) requires mu * n == s;
    let xx = x * x;
    assert((n - 1real) * (q - xx) == n * q - n * xx - q + xx) by(nonlinear_arith);
    assert((s - x) * (s - x) == s * s - 2real * x * s + x * x) by(nonlinear_arith);
}
