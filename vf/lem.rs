use vstd::prelude::*;
use crate::shim::*;

// ---------- sums over sequences of scalars ----------
pub open spec fn sum(s: Seq<T>) -> real decreases s.len() {
    if s.len() == 0 { 0real } else { sum(s.drop_last()) + s.last().v() }
}
pub broadcast proof fn lemma_sum_push(s: Seq<T>, x: T)
    ensures #[trigger] sum(s.push(x)) == sum(s) + x.v()
{
    assert(s.push(x).drop_last() =~= s);
}
pub broadcast proof fn lemma_sum_drop_first(s: Seq<T>)
    requires s.len() > 0
    ensures #[trigger] sum(s.drop_first()) == sum(s) - s[0].v()
    decreases s.len()
{
    if s.len() == 1 {
        assert(s.drop_first() =~= Seq::<T>::empty());
        assert(s.drop_last() =~= Seq::<T>::empty());
    } else {
        lemma_sum_drop_first(s.drop_last());
        assert(s.drop_first().drop_last() =~= s.drop_last().drop_first());
    }
}
pub broadcast proof fn lemma_sum_subrange1(s: Seq<T>)
    requires s.len() > 0
    ensures #[trigger] sum(s.subrange(1, s.len() as int)) == sum(s) - s[0].v()
{
    lemma_sum_drop_first(s);
    assert(s.subrange(1, s.len() as int) =~= s.drop_first());
}
pub broadcast proof fn lemma_sum_empty()
    ensures #[trigger] sum(Seq::<T>::empty()) == 0real
{}

// the window discipline of the statement "over exactly the N most recent values":
// evict the oldest iff the window already holds N values, then append
pub open spec fn wpush(w: Seq<T>, x: T, n: nat) -> Seq<T> {
    if w.len() >= n && w.len() > 0 { w.drop_first().push(x) } else { w.push(x) }
}

pub broadcast group group_lem { lemma_sum_push, lemma_sum_drop_first, lemma_sum_subrange1, lemma_sum_empty }
