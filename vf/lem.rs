use vstd::prelude::*;
use crate::shim::*;
use crate::alg::*;

// marker used as a stable quantifier trigger (instantiation happens only for windows explicitly marked)
pub open spec fn wmark(w: Seq<T>) -> bool { true }

// ---------- sums over sequences of scalars ----------
pub open spec fn sum(s: Seq<T>) -> real decreases s.len() {
    if s.len() == 0 { 0real } else { sum(s.drop_last()) + s.last().v() }
}
pub broadcast proof fn lemma_sum_push(s: Seq<T>, x: T)
    ensures #[trigger] sum(s.push(x)) == sum(s) + x.v()
{
    assert(s.push(x).drop_last() =~= s);
}
pub broadcast proof fn lemma_sum_drop_first(s: Seq<T>)
    requires s.len() > 0
    ensures #[trigger] sum(s.drop_first()) == sum(s) - s[0].v()
    decreases s.len()
{
    if s.len() == 1 {
        assert(s.drop_first() =~= Seq::<T>::empty());
        assert(s.drop_last() =~= Seq::<T>::empty());
    } else {
        lemma_sum_drop_first(s.drop_last());
        assert(s.drop_first().drop_last() =~= s.drop_last().drop_first());
    }
}
pub broadcast proof fn lemma_sum_subrange1(s: Seq<T>)
    requires s.len() > 0
    ensures #[trigger] sum(s.subrange(1, s.len() as int)) == sum(s) - s[0].v()
{
    lemma_sum_drop_first(s);
    assert(s.subrange(1, s.len() as int) =~= s.drop_first());
}
pub broadcast proof fn lemma_sum_empty()
    ensures #[trigger] sum(Seq::<T>::empty()) == 0real
{}

// the window discipline of the statement "over exactly the N most recent values":
// evict the oldest iff the window already holds N values, then append
pub open spec fn wpush(w: Seq<T>, x: T, n: nat) -> Seq<T> {
    if w.len() >= n && w.len() > 0 { w.drop_first().push(x) } else { w.push(x) }
}


// ---------- sum of squares ----------
pub open spec fn sumsq(s: Seq<T>) -> real decreases s.len() {
    if s.len() == 0 { 0real } else { sumsq(s.drop_last()) + s.last().v() * s.last().v() }
}
pub broadcast proof fn lemma_sumsq_push(s: Seq<T>, x: T)
    ensures #[trigger] sumsq(s.push(x)) == sumsq(s) + x.v() * x.v()
{
    assert(s.push(x).drop_last() =~= s);
}
pub broadcast proof fn lemma_sumsq_drop_first(s: Seq<T>)
    requires s.len() > 0
    ensures #[trigger] sumsq(s.drop_first()) == sumsq(s) - s[0].v() * s[0].v()
    decreases s.len()
{
    if s.len() == 1 {
        assert(s.drop_first() =~= Seq::<T>::empty());
        assert(s.drop_last() =~= Seq::<T>::empty());
    } else {
        lemma_sumsq_drop_first(s.drop_last());
        assert(s.drop_first().drop_last() =~= s.drop_last().drop_first());
    }
}
pub broadcast proof fn lemma_sumsq_subrange1(s: Seq<T>)
    requires s.len() > 0
    ensures #[trigger] sumsq(s.subrange(1, s.len() as int)) == sumsq(s) - s[0].v() * s[0].v()
{
    lemma_sumsq_drop_first(s);
    assert(s.subrange(1, s.len() as int) =~= s.drop_first());
}

// ---------- minimum / maximum of a non-empty sequence ----------
pub open spec fn smin(s: Seq<T>) -> real decreases s.len() {
    if s.len() == 0 { 0real } else if s.len() == 1 { s[0].v() } else {
        let m = smin(s.drop_last()); if s.last().v() < m { s.last().v() } else { m } }
}
pub open spec fn smax(s: Seq<T>) -> real decreases s.len() {
    if s.len() == 0 { 0real } else if s.len() == 1 { s[0].v() } else {
        let m = smax(s.drop_last()); if s.last().v() > m { s.last().v() } else { m } }
}
pub proof fn lemma_smin_is_min(s: Seq<T>)
    requires s.len() > 0
    ensures forall|i: int| 0 <= i < s.len() ==> smin(s) <= #[trigger] s[i].v(), exists|i: int| 0 <= i < s.len() && smin(s) == s[i].v()
    decreases s.len()
{
    if s.len() > 1 {
        lemma_smin_is_min(s.drop_last());
        let j = choose|i: int| 0 <= i < s.drop_last().len() && smin(s.drop_last()) == s.drop_last()[i].v();
        assert(s.drop_last()[j] == s[j]);
        assert forall|i: int| 0 <= i < s.len() implies smin(s) <= #[trigger] s[i].v() by {
            if i < s.len() - 1 { assert(s.drop_last()[i] == s[i]); }
        }
        if s.last().v() < smin(s.drop_last()) { assert(smin(s) == s[s.len() - 1].v()); } else { assert(smin(s) == s[j].v()); }
    } else { assert(smin(s) == s[0].v()); }
}
pub proof fn lemma_smax_is_max(s: Seq<T>)
    requires s.len() > 0
    ensures forall|i: int| 0 <= i < s.len() ==> smax(s) >= #[trigger] s[i].v(), exists|i: int| 0 <= i < s.len() && smax(s) == s[i].v()
    decreases s.len()
{
    if s.len() > 1 {
        lemma_smax_is_max(s.drop_last());
        let j = choose|i: int| 0 <= i < s.drop_last().len() && smax(s.drop_last()) == s.drop_last()[i].v();
        assert(s.drop_last()[j] == s[j]);
        assert forall|i: int| 0 <= i < s.len() implies smax(s) >= #[trigger] s[i].v() by {
            if i < s.len() - 1 { assert(s.drop_last()[i] == s[i]); }
        }
        if s.last().v() > smax(s.drop_last()) { assert(smax(s) == s[s.len() - 1].v()); } else { assert(smax(s) == s[j].v()); }
    } else { assert(smax(s) == s[0].v()); }
}
// a value that is <= all elements and attained IS smin (uniqueness)
pub proof fn lemma_smin_unique(m: real, s: Seq<T>)
    requires s.len() > 0, forall|i: int| 0 <= i < s.len() ==> m <= #[trigger] s[i].v(), exists|i: int| 0 <= i < s.len() && m == s[i].v()
    ensures m == smin(s)
{
    lemma_smin_is_min(s);
    let a = choose|i: int| 0 <= i < s.len() && m == s[i].v();
    let b = choose|i: int| 0 <= i < s.len() && smin(s) == s[i].v();
    assert(m <= s[b].v()); assert(smin(s) <= s[a].v());
}
pub proof fn lemma_smax_unique(m: real, s: Seq<T>)
    requires s.len() > 0, forall|i: int| 0 <= i < s.len() ==> m >= #[trigger] s[i].v(), exists|i: int| 0 <= i < s.len() && m == s[i].v()
    ensures m == smax(s)
{
    lemma_smax_is_max(s);
    let a = choose|i: int| 0 <= i < s.len() && m == s[i].v();
    let b = choose|i: int| 0 <= i < s.len() && smax(s) == s[i].v();
    assert(m >= s[b].v()); assert(smax(s) >= s[a].v());
}
pub broadcast proof fn lemma_is_min_of(m: T, s: Seq<T>)
    requires s.len() > 0, #[trigger] is_min_of(m, s)
    ensures m.v() == smin(s)
{
    let a = choose|i: int| 0 <= i < s.len() && m == s[i];
    assert(m.v() == s[a].v());
    lemma_smin_unique(m.v(), s);
}
pub broadcast proof fn lemma_is_max_of(m: T, s: Seq<T>)
    requires s.len() > 0, #[trigger] is_max_of(m, s)
    ensures m.v() == smax(s)
{
    let a = choose|i: int| 0 <= i < s.len() && m == s[i];
    assert(m.v() == s[a].v());
    lemma_smax_unique(m.v(), s);
}
pub broadcast proof fn lemma_smin_push(s: Seq<T>, x: T)
    ensures #[trigger] smin(s.push(x)) == (if s.len() == 0 { x.v() } else if x.v() < smin(s) { x.v() } else { smin(s) })
{
    assert(s.push(x).drop_last() =~= s);
}
pub broadcast proof fn lemma_smax_push(s: Seq<T>, x: T)
    ensures #[trigger] smax(s.push(x)) == (if s.len() == 0 { x.v() } else if x.v() > smax(s) { x.v() } else { smax(s) })
{
    assert(s.push(x).drop_last() =~= s);
}
// evicting an element that is not the (unique-valued) minimum leaves the minimum unchanged
pub broadcast proof fn lemma_smin_drop_first(s: Seq<T>)
    requires s.len() > 1, s[0].v() != smin(s)
    ensures #[trigger] smin(s.drop_first()) == smin(s)
{
    lemma_smin_is_min(s);
    let a = choose|i: int| 0 <= i < s.len() && smin(s) == s[i].v();
    let t = s.drop_first();
    assert(t[a - 1] == s[a]);
    assert forall|i: int| 0 <= i < t.len() implies smin(s) <= #[trigger] t[i].v() by { assert(t[i] == s[i + 1]); }
    lemma_smin_unique(smin(s), t);
}
pub broadcast proof fn lemma_smax_drop_first(s: Seq<T>)
    requires s.len() > 1, s[0].v() != smax(s)
    ensures #[trigger] smax(s.drop_first()) == smax(s)
{
    lemma_smax_is_max(s);
    let a = choose|i: int| 0 <= i < s.len() && smax(s) == s[i].v();
    let t = s.drop_first();
    assert(t[a - 1] == s[a]);
    assert forall|i: int| 0 <= i < t.len() implies smax(s) >= #[trigger] t[i].v() by { assert(t[i] == s[i + 1]); }
    lemma_smax_unique(smax(s), t);
}
pub broadcast proof fn lemma_smin_subrange1(s: Seq<T>)
    requires s.len() > 1, s[0].v() != smin(s)
    ensures #[trigger] smin(s.subrange(1, s.len() as int)) == smin(s)
{
    lemma_smin_drop_first(s); assert(s.subrange(1, s.len() as int) =~= s.drop_first());
}
pub broadcast proof fn lemma_smax_subrange1(s: Seq<T>)
    requires s.len() > 1, s[0].v() != smax(s)
    ensures #[trigger] smax(s.subrange(1, s.len() as int)) == smax(s)
{
    lemma_smax_drop_first(s); assert(s.subrange(1, s.len() as int) =~= s.drop_first());
}
pub broadcast proof fn lemma_smin_le_first(s: Seq<T>)
    requires s.len() > 0
    ensures #[trigger] smin(s) <= s[0].v(), smin(s) <= s.last().v()
{ lemma_smin_is_min(s); }
pub broadcast proof fn lemma_smax_ge_first(s: Seq<T>)
    requires s.len() > 0
    ensures #[trigger] smax(s) >= s[0].v(), smax(s) >= s.last().v()
{ lemma_smax_is_max(s); }

// ---------- BinaryEntropy: count of non-negative values; newest-first window ----------
// the deque is newest-first: push_front / pop_back
pub open spec fn nonneg_count(s: Seq<T>) -> nat decreases s.len() {
    if s.len() == 0 { 0 } else { nonneg_count(s.drop_last()) + (if s.last().v() >= 0real { 1nat } else { 0nat }) }
}
pub open spec fn wpush_front(w: Seq<T>, y: T, n: nat) -> Seq<T> {
    if w.len() >= n && w.len() > 0 { seq![y] + w.drop_last() } else { seq![y] + w }
}
pub broadcast proof fn lemma_nonneg_count_front(s: Seq<T>, y: T)
    ensures #[trigger] nonneg_count(seq![y] + s) == nonneg_count(s) + (if y.v() >= 0real { 1nat } else { 0nat }),
    decreases s.len()
{
    if s.len() == 0 {
        assert(seq![y] + s =~= seq![y]);
        assert(seq![y].drop_last() =~= Seq::<T>::empty());
        assert(seq![y].last() == y);
        assert(nonneg_count(Seq::<T>::empty()) == 0);
    } else {
        lemma_nonneg_count_front(s.drop_last(), y);
        assert((seq![y] + s).drop_last() =~= seq![y] + s.drop_last());
        assert((seq![y] + s).last() == s.last());
    }
}
pub broadcast proof fn lemma_nonneg_count_le(s: Seq<T>)
    ensures #[trigger] nonneg_count(s) <= s.len(),
        s.len() > 0 ==> nonneg_count(s.drop_last()) <= s.len() - 1
            && nonneg_count(s) == nonneg_count(s.drop_last()) + (if s.last().v() >= 0real { 1nat } else { 0nat }),
    decreases s.len()
{ if s.len() > 0 { lemma_nonneg_count_le(s.drop_last()); } }

// ---------- Welford: running mean / sum of squared deviations of a window (division-free characterisation) ----------
pub open spec fn wstats(w: Seq<T>, count: nat, mean: real, m2: real) -> bool {
    &&& count == w.len()
    &&& mean * (count as real) == sum(w)
    &&& m2 * (count as real) == (count as real) * sumsq(w) - sum(w) * sum(w)
    &&& (count == 0 ==> mean == 0real && m2 == 0real)
}
pub proof fn lemma_welford_add(w: Seq<T>, mean: real, m2: real, x: T, mean1: real, m21: real)
    requires wstats(w, w.len(), mean, m2),
        mean1 == mean + rdiv(x.v() - mean, (w.len() + 1) as real),
        m21 == m2 + (x.v() - mean) * (x.v() - mean1),
    ensures wstats(w.push(x), w.len() + 1, mean1, m21)
{
    let n = w.len() as real; let xv = x.v();
    let e = rdiv(xv - mean, n + 1real);
    lemma_rdiv_mul(xv - mean, n + 1real);
    lemma_sum_push(w, x); lemma_sumsq_push(w, x);
    assert((w.len() + 1) as real == n + 1real);
    if w.len() == 0 {
        assert(e * 1real == xv) by(nonlinear_arith) requires e * (n + 1real) == xv - mean, n == 0real, mean == 0real;
        assert(mean1 == xv);
        assert((xv - mean) * (xv - mean1) == 0real) by(nonlinear_arith) requires xv - mean1 == 0real;
        assert(mean1 * 1real == xv) by(nonlinear_arith) requires mean1 == xv;
        assert(m21 * 1real == 0real) by(nonlinear_arith) requires m21 == 0real;
        assert(1real * (xv * xv) - xv * xv == 0real) by(nonlinear_arith);
    } else {
        welford_add_core(n, mean, sum(w), sumsq(w), m2, xv, e, mean1, m21);
    }
}
pub proof fn lemma_welford_remove(w: Seq<T>, mean: real, m2: real, mean1: real, m21: real)
    requires w.len() >= 2, wstats(w, w.len(), mean, m2),
        mean1 == mean - rdiv(w[0].v() - mean, (w.len() - 1) as real),
        m21 == m2 - (w[0].v() - mean) * (w[0].v() - mean1),
    ensures wstats(w.drop_first(), (w.len() - 1) as nat, mean1, m21)
{
    let n = w.len() as real; let xv = w[0].v();
    let e = rdiv(xv - mean, n - 1real);
    lemma_rdiv_mul(xv - mean, n - 1real);
    lemma_sum_drop_first(w); lemma_sumsq_drop_first(w);
    assert((w.len() - 1) as real == n - 1real);
    welford_remove_core(n, mean, sum(w), sumsq(w), m2, xv, e, mean1, m21);
}
pub proof fn lemma_rdiv_unique(c: real, a: real, b: real)
    requires b != 0real, c * b == a
    ensures c == rdiv(a, b)
{
    lemma_rdiv_mul(a, b);
    assert(c == rdiv(a, b)) by(nonlinear_arith) requires c * b == a, rdiv(a, b) * b == a, b != 0real;
}

// ---------- weighted sums ----------
pub open spec fn dot(a: Seq<T>, b: Seq<T>) -> real decreases a.len() {
    if a.len() == 0 || b.len() != a.len() { 0real } else { dot(a.drop_last(), b.drop_last()) + a.last().v() * b.last().v() }
}
pub broadcast proof fn lemma_dot_push(a: Seq<T>, b: Seq<T>, x: T, y: T)
    requires a.len() == b.len()
    ensures #[trigger] dot(a.push(x), b.push(y)) == dot(a, b) + x.v() * y.v()
{
    assert(a.push(x).drop_last() =~= a); assert(b.push(y).drop_last() =~= b);
}
pub broadcast proof fn lemma_dot_drop_first(a: Seq<T>, b: Seq<T>)
    requires a.len() == b.len(), a.len() > 0
    ensures #[trigger] dot(a.drop_first(), b.drop_first()) == dot(a, b) - a[0].v() * b[0].v()
    decreases a.len()
{
    if a.len() == 1 {
        assert(a.drop_first() =~= Seq::<T>::empty()); assert(a.drop_last() =~= Seq::<T>::empty());
        assert(b.drop_first() =~= Seq::<T>::empty()); assert(b.drop_last() =~= Seq::<T>::empty());
    } else {
        lemma_dot_drop_first(a.drop_last(), b.drop_last());
        assert(a.drop_first().drop_last() =~= a.drop_last().drop_first());
        assert(b.drop_first().drop_last() =~= b.drop_last().drop_first());
    }
}
pub broadcast proof fn lemma_dot_subrange1(a: Seq<T>, b: Seq<T>)
    requires a.len() == b.len(), a.len() > 0
    ensures #[trigger] dot(a.subrange(1, a.len() as int), b.subrange(1, b.len() as int)) == dot(a, b) - a[0].v() * b[0].v()
{
    lemma_dot_drop_first(a, b);
    assert(a.subrange(1, a.len() as int) =~= a.drop_first()); assert(b.subrange(1, b.len() as int) =~= b.drop_first());
}
pub open spec fn all_pos(s: Seq<T>) -> bool { forall|i: int| 0 <= i < s.len() ==> #[trigger] s[i].v() > 0real }
pub broadcast proof fn lemma_all_pos_sum(s: Seq<T>)
    requires #[trigger] all_pos(s)
    ensures #[trigger] sum(s) >= 0real, s.len() > 0 ==> sum(s) > 0real && sum(s.drop_first()) >= 0real && all_pos(s.drop_first()),
    decreases s.len()
{
    if s.len() > 0 {
        assert(all_pos(s.drop_last())) by { assert forall|i: int| 0 <= i < s.drop_last().len() implies #[trigger] s.drop_last()[i].v() > 0real by { assert(s.drop_last()[i] == s[i]); } }
        lemma_all_pos_sum(s.drop_last());
        assert(s.last() == s[s.len() - 1]);
        lemma_sum_drop_first(s);
        assert(s[0].v() > 0real);
        assert(all_pos(s.drop_first())) by { assert forall|i: int| 0 <= i < s.drop_first().len() implies #[trigger] s.drop_first()[i].v() > 0real by { assert(s.drop_first()[i] == s[i + 1]); } }
        if s.len() > 1 {
            lemma_all_pos_sum(s.drop_first());
        } else { assert(s.drop_first() =~= Seq::<T>::empty()); }
    }
}
pub broadcast proof fn lemma_all_pos_push(s: Seq<T>, x: T)
    requires all_pos(s), x.v() > 0real
    ensures #[trigger] all_pos(s.push(x))
{
    assert forall|i: int| 0 <= i < s.push(x).len() implies #[trigger] s.push(x)[i].v() > 0real by { if i < s.len() { assert(s.push(x)[i] == s[i]); } }
}
pub proof fn lemma_rdiv_nonzero(a: real, b: real)
    requires a != 0real, b != 0real
    ensures rdiv(a, b) != 0real
{
    lemma_rdiv_mul(a, b);
    assert(rdiv(a, b) != 0real) by(nonlinear_arith) requires rdiv(a, b) * b == a, a != 0real;
}

// ---------- gains / losses of a window (RSI family): d_i = w[i] - (predecessor of w[i]); pred precedes w[0] ----------
pub open spec fn prev_of(w: Seq<T>, pred: T, i: int) -> real { if i == 0 { pred.v() } else { w[i - 1].v() } }
pub open spec fn pos_part(x: real) -> real { if x > 0real { x } else { 0real } }
pub open spec fn neg_part(x: real) -> real { if x > 0real { 0real } else { -x } }
pub open spec fn gains(w: Seq<T>, pred: T) -> real decreases w.len() {
    if w.len() == 0 { 0real } else { gains(w.drop_last(), pred) + pos_part(w.last().v() - prev_of(w, pred, w.len() - 1)) }
}
pub open spec fn losses(w: Seq<T>, pred: T) -> real decreases w.len() {
    if w.len() == 0 { 0real } else { losses(w.drop_last(), pred) + neg_part(w.last().v() - prev_of(w, pred, w.len() - 1)) }
}
// the same sums with every term divided by n (this is literally what Rsi accumulates)
pub open spec fn gains_q(w: Seq<T>, pred: T, n: real) -> real decreases w.len() {
    if w.len() == 0 { 0real } else { gains_q(w.drop_last(), pred, n) + rdiv(pos_part(w.last().v() - prev_of(w, pred, w.len() - 1)), n) }
}
pub open spec fn losses_q(w: Seq<T>, pred: T, n: real) -> real decreases w.len() {
    if w.len() == 0 { 0real } else { losses_q(w.drop_last(), pred, n) + rdiv(neg_part(w.last().v() - prev_of(w, pred, w.len() - 1)), n) }
}
pub broadcast proof fn lemma_gl_push(w: Seq<T>, pred: T, x: T)
    ensures #[trigger] gains(w.push(x), pred) == gains(w, pred) + pos_part(x.v() - (if w.len() == 0 { pred.v() } else { w.last().v() })),
            #[trigger] losses(w.push(x), pred) == losses(w, pred) + neg_part(x.v() - (if w.len() == 0 { pred.v() } else { w.last().v() })),
{
    assert(w.push(x).drop_last() =~= w);
}
pub broadcast proof fn lemma_glq_push(w: Seq<T>, pred: T, x: T, n: real)
    ensures #[trigger] gains_q(w.push(x), pred, n) == gains_q(w, pred, n) + rdiv(pos_part(x.v() - (if w.len() == 0 { pred.v() } else { w.last().v() })), n),
            #[trigger] losses_q(w.push(x), pred, n) == losses_q(w, pred, n) + rdiv(neg_part(x.v() - (if w.len() == 0 { pred.v() } else { w.last().v() })), n),
{
    assert(w.push(x).drop_last() =~= w);
}
pub proof fn lemma_gains_drop_first(w: Seq<T>, pred: T)
    requires w.len() > 0
    ensures gains(w.drop_first(), w[0]) == gains(w, pred) - pos_part(w[0].v() - pred.v())
    decreases w.len()
{
    if w.len() == 1 {
        assert(w.drop_first() =~= Seq::<T>::empty()); assert(w.drop_last() =~= Seq::<T>::empty());
        assert(w.last() == w[0]);
        assert(gains(Seq::<T>::empty(), w[0]) == 0real);
        assert(gains(Seq::<T>::empty(), pred) == 0real);
        assert(gains(w, pred) == gains(w.drop_last(), pred) + pos_part(w.last().v() - prev_of(w, pred, w.len() - 1)));
    } else {
        lemma_gains_drop_first(w.drop_last(), pred);
        let t = w.drop_first(); let u = w.drop_last();
        assert(u[0] == w[0]);
        assert(t.drop_last() =~= u.drop_first());
        assert(t.last() == w.last());
        if w.len() > 2 { assert(t[w.len() - 3] == w[w.len() - 2]); }
        assert(prev_of(t, w[0], t.len() - 1) == w[w.len() - 2].v());
        assert(prev_of(w, pred, w.len() - 1) == w[w.len() - 2].v());
        assert(gains(t, w[0]) == gains(t.drop_last(), w[0]) + pos_part(t.last().v() - prev_of(t, w[0], t.len() - 1)));
        assert(gains(w, pred) == gains(u, pred) + pos_part(w.last().v() - prev_of(w, pred, w.len() - 1)));
    }
}
pub proof fn lemma_losses_drop_first(w: Seq<T>, pred: T)
    requires w.len() > 0
    ensures losses(w.drop_first(), w[0]) == losses(w, pred) - neg_part(w[0].v() - pred.v())
    decreases w.len()
{
    if w.len() == 1 {
        assert(w.drop_first() =~= Seq::<T>::empty()); assert(w.drop_last() =~= Seq::<T>::empty());
        assert(w.last() == w[0]);
        assert(losses(Seq::<T>::empty(), w[0]) == 0real);
        assert(losses(Seq::<T>::empty(), pred) == 0real);
        assert(losses(w, pred) == losses(w.drop_last(), pred) + neg_part(w.last().v() - prev_of(w, pred, w.len() - 1)));
    } else {
        lemma_losses_drop_first(w.drop_last(), pred);
        let t = w.drop_first(); let u = w.drop_last();
        assert(u[0] == w[0]);
        assert(t.drop_last() =~= u.drop_first());
        assert(t.last() == w.last());
        if w.len() > 2 { assert(t[w.len() - 3] == w[w.len() - 2]); }
        assert(prev_of(t, w[0], t.len() - 1) == w[w.len() - 2].v());
        assert(prev_of(w, pred, w.len() - 1) == w[w.len() - 2].v());
        assert(losses(t, w[0]) == losses(t.drop_last(), w[0]) + neg_part(t.last().v() - prev_of(t, w[0], t.len() - 1)));
        assert(losses(w, pred) == losses(u, pred) + neg_part(w.last().v() - prev_of(w, pred, w.len() - 1)));
    }
}
pub proof fn lemma_gains_q_drop_first(w: Seq<T>, pred: T, n: real)
    requires w.len() > 0
    ensures gains_q(w.drop_first(), w[0], n) == gains_q(w, pred, n) - rdiv(pos_part(w[0].v() - pred.v()), n)
    decreases w.len()
{
    if w.len() == 1 {
        assert(w.drop_first() =~= Seq::<T>::empty()); assert(w.drop_last() =~= Seq::<T>::empty());
        assert(w.last() == w[0]);
        assert(gains_q(Seq::<T>::empty(), w[0], n) == 0real);
        assert(gains_q(Seq::<T>::empty(), pred, n) == 0real);
        assert(gains_q(w, pred, n) == gains_q(w.drop_last(), pred, n) + rdiv(pos_part(w.last().v() - prev_of(w, pred, w.len() - 1)), n));
    } else {
        lemma_gains_q_drop_first(w.drop_last(), pred, n);
        let t = w.drop_first(); let u = w.drop_last();
        assert(u[0] == w[0]);
        assert(t.drop_last() =~= u.drop_first());
        assert(t.last() == w.last());
        if w.len() > 2 { assert(t[w.len() - 3] == w[w.len() - 2]); }
        assert(prev_of(t, w[0], t.len() - 1) == w[w.len() - 2].v());
        assert(prev_of(w, pred, w.len() - 1) == w[w.len() - 2].v());
        assert(gains_q(t, w[0], n) == gains_q(t.drop_last(), w[0], n) + rdiv(pos_part(t.last().v() - prev_of(t, w[0], t.len() - 1)), n));
        assert(gains_q(w, pred, n) == gains_q(u, pred, n) + rdiv(pos_part(w.last().v() - prev_of(w, pred, w.len() - 1)), n));
    }
}
pub proof fn lemma_losses_q_drop_first(w: Seq<T>, pred: T, n: real)
    requires w.len() > 0
    ensures losses_q(w.drop_first(), w[0], n) == losses_q(w, pred, n) - rdiv(neg_part(w[0].v() - pred.v()), n)
    decreases w.len()
{
    if w.len() == 1 {
        assert(w.drop_first() =~= Seq::<T>::empty()); assert(w.drop_last() =~= Seq::<T>::empty());
        assert(w.last() == w[0]);
        assert(losses_q(Seq::<T>::empty(), w[0], n) == 0real);
        assert(losses_q(Seq::<T>::empty(), pred, n) == 0real);
        assert(losses_q(w, pred, n) == losses_q(w.drop_last(), pred, n) + rdiv(neg_part(w.last().v() - prev_of(w, pred, w.len() - 1)), n));
    } else {
        lemma_losses_q_drop_first(w.drop_last(), pred, n);
        let t = w.drop_first(); let u = w.drop_last();
        assert(u[0] == w[0]);
        assert(t.drop_last() =~= u.drop_first());
        assert(t.last() == w.last());
        if w.len() > 2 { assert(t[w.len() - 3] == w[w.len() - 2]); }
        assert(prev_of(t, w[0], t.len() - 1) == w[w.len() - 2].v());
        assert(prev_of(w, pred, w.len() - 1) == w[w.len() - 2].v());
        assert(losses_q(t, w[0], n) == losses_q(t.drop_last(), w[0], n) + rdiv(neg_part(t.last().v() - prev_of(t, w[0], t.len() - 1)), n));
        assert(losses_q(w, pred, n) == losses_q(u, pred, n) + rdiv(neg_part(w.last().v() - prev_of(w, pred, w.len() - 1)), n));
    }
}
pub proof fn lemma_gl_drop_first(w: Seq<T>, pred: T)
    requires w.len() > 0
    ensures gains(w.drop_first(), w[0]) == gains(w, pred) - pos_part(w[0].v() - pred.v()),
            losses(w.drop_first(), w[0]) == losses(w, pred) - neg_part(w[0].v() - pred.v()),
{ lemma_gains_drop_first(w, pred); lemma_losses_drop_first(w, pred); }
pub proof fn lemma_glq_drop_first(w: Seq<T>, pred: T, n: real)
    requires w.len() > 0
    ensures gains_q(w.drop_first(), w[0], n) == gains_q(w, pred, n) - rdiv(pos_part(w[0].v() - pred.v()), n),
            losses_q(w.drop_first(), w[0], n) == losses_q(w, pred, n) - rdiv(neg_part(w[0].v() - pred.v()), n),
{ lemma_gains_q_drop_first(w, pred, n); lemma_losses_q_drop_first(w, pred, n); }
pub broadcast proof fn lemma_gl_nonneg(w: Seq<T>, pred: T)
    ensures #[trigger] gains(w, pred) >= 0real, #[trigger] losses(w, pred) >= 0real
    decreases w.len()
{ if w.len() > 0 { lemma_gl_nonneg(w.drop_last(), pred); } }
pub broadcast proof fn lemma_glq_nonneg(w: Seq<T>, pred: T, n: real)
    requires n > 0real
    ensures #[trigger] gains_q(w, pred, n) >= 0real, #[trigger] losses_q(w, pred, n) >= 0real
    decreases w.len()
{ if w.len() > 0 { lemma_glq_nonneg(w.drop_last(), pred, n); lemma_rdiv_sign(pos_part(w.last().v() - prev_of(w, pred, w.len() - 1)), n); lemma_rdiv_sign(neg_part(w.last().v() - prev_of(w, pred, w.len() - 1)), n); } }
// link: (sum of quotients) * n == sum
pub proof fn lemma_glq_link(w: Seq<T>, pred: T, n: real)
    requires n > 0real
    ensures gains_q(w, pred, n) * n == gains(w, pred), losses_q(w, pred, n) * n == losses(w, pred)
    decreases w.len()
{
    if w.len() > 0 {
        lemma_glq_link(w.drop_last(), pred, n);
        let d = w.last().v() - prev_of(w, pred, w.len() - 1);
        lemma_rdiv_mul(pos_part(d), n); lemma_rdiv_mul(neg_part(d), n);
        lemma_mul_dist(gains_q(w.drop_last(), pred, n), rdiv(pos_part(d), n), n);
        lemma_mul_dist(losses_q(w.drop_last(), pred, n), rdiv(neg_part(d), n), n);
    } else {
        lemma_mul_zero(n);
    }
}

pub broadcast proof fn lemma_gains_q_evict(w: Seq<T>, pred: T, n: real)
    requires w.len() > 0, n > 0real
    ensures #![trigger gains_q(w, pred, n), wmark(w)] gains_q(w, pred, n) - rdiv(pos_part(w[0].v() - pred.v()), n) == gains_q(w.drop_first(), w[0], n), gains_q(w.drop_first(), w[0], n) >= 0real
{ lemma_gains_q_drop_first(w, pred, n); lemma_glq_nonneg(w.drop_first(), w[0], n); }
pub broadcast proof fn lemma_losses_q_evict(w: Seq<T>, pred: T, n: real)
    requires w.len() > 0, n > 0real
    ensures #![trigger losses_q(w, pred, n), wmark(w)] losses_q(w, pred, n) - rdiv(neg_part(w[0].v() - pred.v()), n) == losses_q(w.drop_first(), w[0], n), losses_q(w.drop_first(), w[0], n) >= 0real
{ lemma_losses_q_drop_first(w, pred, n); lemma_glq_nonneg(w.drop_first(), w[0], n); }
pub broadcast proof fn lemma_gains_evict(w: Seq<T>, pred: T)
    requires w.len() > 0
    ensures #![trigger gains(w, pred), wmark(w)] gains(w, pred) - pos_part(w[0].v() - pred.v()) == gains(w.drop_first(), w[0]), gains(w.drop_first(), w[0]) >= 0real
{ lemma_gains_drop_first(w, pred); lemma_gl_nonneg(w.drop_first(), w[0]); }
pub broadcast proof fn lemma_losses_evict(w: Seq<T>, pred: T)
    requires w.len() > 0
    ensures #![trigger losses(w, pred), wmark(w)] losses(w, pred) - neg_part(w[0].v() - pred.v()) == losses(w.drop_first(), w[0]), losses(w.drop_first(), w[0]) >= 0real
{ lemma_losses_drop_first(w, pred); lemma_gl_nonneg(w.drop_first(), w[0]); }
pub proof fn lemma_rdiv_le_k(a: real, b: real, k: real)
    requires b > 0real, a <= k * b
    ensures rdiv(a, b) <= k
{
    lemma_rdiv_mul(a, b);
    assert(rdiv(a, b) <= k) by(nonlinear_arith) requires rdiv(a, b) * b == a, a <= k * b, b > 0real;
}
pub proof fn lemma_mul_pos_zero(a: real, n: real)
    requires n > 0real
    ensures (a * n == 0real) == (a == 0real), a > 0real ==> a * n > 0real, a >= 0real ==> a * n >= 0real
{
    assert((a * n == 0real) == (a == 0real)) by(nonlinear_arith) requires n > 0real;
    assert(a > 0real ==> a * n > 0real) by(nonlinear_arith) requires n > 0real;
    assert(a >= 0real ==> a * n >= 0real) by(nonlinear_arith) requires n > 0real;
}

// ---------- index-weighted sums (CenterOfGravity, CorrelationTrendIndicator) ----------
// sum_{i<|w|} (n - i) * w[i]
pub open spec fn wsum_k(w: Seq<T>, n: int) -> real decreases w.len() {
    if w.len() == 0 { 0real } else { wsum_k(w.drop_last(), n) + ((n - (w.len() - 1)) as real) * w.last().v() }
}
// sum_{i<|w|} i * w[i]
pub open spec fn ixsum(w: Seq<T>) -> real decreases w.len() {
    if w.len() == 0 { 0real } else { ixsum(w.drop_last()) + w.last().v() * ((w.len() - 1) as real) }
}
pub open spec fn isum(k: nat) -> real decreases k { if k == 0 { 0real } else { isum((k - 1) as nat) + ((k - 1) as real) } }
pub open spec fn isq(k: nat) -> real decreases k { if k == 0 { 0real } else { isq((k - 1) as nat) + ((k - 1) as real) * ((k - 1) as real) } }
pub proof fn lemma_take_step(w: Seq<T>, i: int)
    requires 0 <= i < w.len()
    ensures w.take(i + 1).drop_last() =~= w.take(i), w.take(i + 1).last() == w[i], w.take(i + 1).len() == i + 1, w.take(w.len() as int) =~= w
{}

pub proof fn lemma_sqrt_pos(x: real) requires x > 0real ensures r_sqrt(x) > 0real
{
    ax_sqrt(x);
    let r = r_sqrt(x);
    assert(r != 0real) by(nonlinear_arith) requires r * r == x, x > 0real;
}

// TrendFlex / ReFlex output stage: ms0 = 0.04 d^2 + 0.96 ms with ms >= 0 dominates d^2 / 25, so |d / sqrt(ms0)| <= 5 for every input history
pub proof fn lemma_flex_out_bound(d: real, ms: real)
    requires ms >= 0real
    ensures ({ let ms0 = (4real / 100real) * r_powi(d, 2) + (96real / 100real) * ms;
               ms0 >= 0real && (ms0 > 0real ==> -5real <= rdiv(d, r_sqrt(ms0)) <= 5real) })
{
    ax_powi2(d); lemma_sq_nonneg(d);
    let ms0 = (4real / 100real) * r_powi(d, 2) + (96real / 100real) * ms;
    if ms0 > 0real {
        lemma_sqrt_pos(ms0); ax_sqrt(ms0);
        let s = r_sqrt(ms0); let q = rdiv(d, s); lemma_rdiv_mul(d, s);
        assert(25real * (s * s) >= d * d);
        assert((5real * s) * (5real * s) == 25real * (s * s)) by(nonlinear_arith);
        assert(d <= 5real * s) by(nonlinear_arith) requires (5real * s) * (5real * s) >= d * d, s > 0real;
        assert(d >= -(5real * s)) by(nonlinear_arith) requires (5real * s) * (5real * s) >= d * d, s > 0real;
        assert(q <= 5real) by(nonlinear_arith) requires q * s == d, d <= 5real * s, s > 0real;
        assert(q >= -5real) by(nonlinear_arith) requires q * s == d, d >= -(5real * s), s > 0real;
    }
}

// the value preceding the window of a change-based view (Rsi, MyRSI): the first value seeds it, afterwards it is the value that leaves the window
pub open spec fn rsi_pred(w: Seq<T>, pred: T, y: T, n: nat) -> T { if w.len() == 0 { y } else if w.len() >= n { w[0] } else { pred } }

// ---------- Kendall pair sums (NoiseEliminationTechnology) ----------
// xs[c] (c >= 1) is the value c-1 steps back from the newest (xs[1] newest); xs[0] is unused
pub open spec fn sgn3(d: real) -> real { if d > 0real { 1real } else if d < 0real { -1real } else { 0real } }
pub open spec fn xs_of(w: Seq<T>) -> Seq<T> { Seq::new(w.len() + 1, |c: int| if c == 0 { mk(0real) } else { w[w.len() - c] }) }
// sum_{k=1}^{m-1} sgn(xs[k] - xs[c])     (newer minus older, for c > k)
pub open spec fn kendall_inner(xs: Seq<T>, c: int, m: int) -> real decreases m {
    if m <= 1 { 0real } else { kendall_inner(xs, c, m - 1) + sgn3(xs[m - 1].v() - xs[c].v()) }
}
// sum_{c=2}^{m-1} sum_{k=1}^{c-1} sgn(xs[k] - xs[c])
pub open spec fn kendall_outer(xs: Seq<T>, m: int) -> real decreases m {
    if m <= 2 { 0real } else { kendall_outer(xs, m - 1) + kendall_inner(xs, m - 1, m - 1) }
}

pub broadcast proof fn lemma_powi2_nonneg(x: real) ensures #[trigger] r_powi(x, 2) >= 0real
{ ax_powi2(x); lemma_sq_nonneg(x); }
// rdiv(a, n) <= a / 3 for n >= 3, a > 0  (used for the trigonometric arguments theta/N)
pub proof fn lemma_rdiv_le_third(a: real, n: real)
    requires a > 0real, n >= 3real
    ensures 0real < rdiv(a, n) && rdiv(a, n) * 3real <= a
{
    lemma_rdiv_mul(a, n); lemma_rdiv_sign(a, n);
    assert(rdiv(a, n) * 3real <= a) by(nonlinear_arith) requires rdiv(a, n) * n == a, n >= 3real, rdiv(a, n) > 0real;
}
// cos(4.4422 / N) != 0 for every window length N >= 1 (first quadrant for N >= 3, second/third for N = 1, 2)
pub proof fn lemma_cos_theta_nonzero(theta: real, n: nat)
    requires theta == 44422real / 10000real, n >= 1
    ensures r_cos(rdiv(theta, n as real)) != 0real, n >= 3 ==> r_cos(rdiv(theta, n as real)) > 0real && r_sin(rdiv(theta, n as real)) > 0real
{
    ax_pi();
    let x = rdiv(theta, n as real);
    if n >= 3 {
        lemma_rdiv_le_third(theta, n as real);
        ax_cos_sin_q1(x);
    } else if n == 2 {
        lemma_rdiv_mul(theta, 2real);
        ax_cos_q23(x);
    } else {
        lemma_rdiv_mul(theta, 1real);
        ax_cos_q23(x);
    }
}

pub proof fn lemma_roofing_alpha(c: real, s: real)
    requires c > 0real, s > 0real, c * c + s * s == 1real
    ensures 0real < rdiv(c + s - 1real, c) < 2real
{ lemma_rdiv_mul(c + s - 1real, c); lemma_roofing_alpha_core(c, s, rdiv(c + s - 1real, c)); }

// ---------- TrendFlex / ReFlex: shared two-pole smoother on a delay line, and the deviation sums ----------
pub open spec fn flex_a1(n: nat) -> real { r_exp(rdiv(-(888442402435real / 100000000000real), n as real)) }
pub open spec fn flex_b1(n: nat) -> real { 2real * flex_a1(n) * r_cos(rdiv(444221201218real / 100000000000real, n as real)) }
pub open spec fn flex_c3(n: nat) -> real { -flex_a1(n) * flex_a1(n) }
pub open spec fn flex_c1(n: nat) -> real { 1real - flex_b1(n) - flex_c3(n) }
// q is the delay line of earlier filter values (after eviction); fewer than two entries truncate the recursion
pub open spec fn flex_filt(q: Seq<T>, x1: T, y: T, n: nat) -> real {
    let base = rdiv(flex_c1(n) * (y.v() + x1.v()), 2real);
    if q.len() == 0 { base } else if q.len() == 1 { base + flex_b1(n) * q[0].v() }
    else { base + flex_b1(n) * q[q.len() - 1].v() + flex_c3(n) * q[q.len() - 2].v() }
}
pub open spec fn tf_dsum(q: Seq<T>, filt: real, i: int) -> real decreases i {
    if i <= 0 { 0real } else { tf_dsum(q, filt, i - 1) + (filt - q[q.len() - 1 - (i - 1)].v()) }
}
pub open spec fn rf_dsum(q: Seq<T>, filt: real, slope: real, i: int) -> real decreases i {
    if i <= 0 { 0real } else { rf_dsum(q, filt, slope, i - 1) + ((filt + ((i - 1) as real) * slope) - q[q.len() - 1 - (i - 1)].v()) }
}
pub open spec fn flex_evict(q: Seq<T>, n: nat) -> Seq<T> { if q.len() >= n && q.len() > 0 { q.drop_first() } else { q } }

// ---------- Fisher transform step and its bound |fish| <= ln 199 ----------
pub open spec fn eft_fish(sm: real, prev: real) -> real {
    (5real / 10real) * r_ln(rdiv(1real + sm, 1real - sm)) + (5real / 10real) * prev
}
pub open spec fn ln199() -> real { r_ln(199real) }
pub proof fn lemma_rdiv_ge_k(a: real, b: real, k: real)
    requires b > 0real, a >= k * b
    ensures rdiv(a, b) >= k
{
    lemma_rdiv_mul(a, b);
    assert(rdiv(a, b) >= k) by(nonlinear_arith) requires rdiv(a, b) * b == a, a >= k * b, b > 0real;
}
pub proof fn lemma_fisher_bound(sm: real, prev: real)
    requires -(99real / 100real) <= sm <= 99real / 100real, -ln199() <= prev <= ln199()
    ensures -ln199() <= eft_fish(sm, prev) <= ln199()
{
    let x = rdiv(1real + sm, 1real - sm);
    lemma_rdiv_le_k(1real + sm, 1real - sm, 199real);
    lemma_rdiv_ge_k(1real + sm, 1real - sm, 1real / 199real);
    ax_ln_mono(x, 199real); ax_ln_mono(1real / 199real, x); ax_ln_inv(199real);
}
pub open spec fn all_within(s: Seq<T>, b: real) -> bool { forall|i: int| 0 <= i < s.len() ==> -b <= #[trigger] s[i].v() <= b }

// the non-negative square root is unique, hence sqrt(a^2 v) = a sqrt(v) for a > 0
pub proof fn lemma_sqrt_unique(y: real, x: real)
    requires y >= 0real, y * y == x
    ensures r_sqrt(x) == y
{
    lemma_sq_nonneg(y);
    ax_sqrt(x);
    let r = r_sqrt(x);
    assert((y - r) * (y + r) == y * y - r * r) by(nonlinear_arith);
    assert(y == r) by(nonlinear_arith) requires (y - r) * (y + r) == 0real, y >= 0real, r >= 0real;
}
pub proof fn lemma_sqrt_scale(a: real, v: real)
    requires a > 0real, v >= 0real
    ensures r_sqrt((a * a) * v) == a * r_sqrt(v)
{
    ax_sqrt(v);
    let s = r_sqrt(v);
    assert((a * s) * (a * s) == (a * a) * (s * s)) by(nonlinear_arith);
    assert(a * s >= 0real) by(nonlinear_arith) requires a > 0real, s >= 0real;
    lemma_sqrt_unique(a * s, (a * a) * v);
}

// ---------- division ----------
pub broadcast proof fn lemma_rdiv_mul(a: real, b: real)
    requires b != 0real
    ensures #[trigger] rdiv(a, b) * b == a
{
    assert(rdiv(a, b) * b == a) by(nonlinear_arith) requires b != 0real, rdiv(a, b) == a / b;
}
pub broadcast proof fn lemma_rdiv_sign(a: real, b: real)
    requires b > 0real
    ensures
        a >= 0real ==> #[trigger] rdiv(a, b) >= 0real,
        a > 0real ==> rdiv(a, b) > 0real,
        a <= 0real ==> rdiv(a, b) <= 0real,
        a < 0real ==> rdiv(a, b) < 0real,
        a < b ==> rdiv(a, b) < 1real,
        a <= b ==> rdiv(a, b) <= 1real,
        a == b ==> rdiv(a, b) == 1real,
        a >= -b ==> rdiv(a, b) >= -1real,
        a > -b ==> rdiv(a, b) > -1real,
        a == 0real ==> rdiv(a, b) == 0real,
{
    let q = rdiv(a, b);
    assert(q * b == a) by(nonlinear_arith) requires b > 0real, q == a / b;
    assert(a >= 0real ==> q >= 0real) by(nonlinear_arith) requires q * b == a, b > 0real;
    assert(a > 0real ==> q > 0real) by(nonlinear_arith) requires q * b == a, b > 0real;
    assert(a <= 0real ==> q <= 0real) by(nonlinear_arith) requires q * b == a, b > 0real;
    assert(a < 0real ==> q < 0real) by(nonlinear_arith) requires q * b == a, b > 0real;
    assert(a < b ==> q < 1real) by(nonlinear_arith) requires q * b == a, b > 0real;
    assert(a <= b ==> q <= 1real) by(nonlinear_arith) requires q * b == a, b > 0real;
    assert(a == b ==> q == 1real) by(nonlinear_arith) requires q * b == a, b > 0real;
    assert(a >= -b ==> q >= -1real) by(nonlinear_arith) requires q * b == a, b > 0real;
    assert(a > -b ==> q > -1real) by(nonlinear_arith) requires q * b == a, b > 0real;
    assert(a == 0real ==> q == 0real) by(nonlinear_arith) requires q * b == a, b > 0real;
}

pub proof fn lemma_rdiv_sign2(a: real, b: real)
    requires b > 0real
    ensures a <= 2real * b ==> rdiv(a, b) <= 2real, a >= 0real ==> rdiv(a, b) >= 0real
{
    let q = rdiv(a, b);
    lemma_rdiv_mul(a, b);
    assert(a <= 2real * b ==> q <= 2real) by(nonlinear_arith) requires q * b == a, b > 0real;
    assert(a >= 0real ==> q >= 0real) by(nonlinear_arith) requires q * b == a, b > 0real;
}
pub broadcast group group_lem { lemma_powi2_nonneg, lemma_gains_q_evict, lemma_losses_q_evict, lemma_gains_evict, lemma_losses_evict, lemma_gl_push, lemma_glq_push, lemma_gl_nonneg, lemma_glq_nonneg, lemma_dot_push, lemma_dot_drop_first, lemma_dot_subrange1, lemma_all_pos_sum, lemma_all_pos_push, lemma_nonneg_count_front, lemma_nonneg_count_le, lemma_rdiv_mul, lemma_rdiv_sign, lemma_sumsq_push, lemma_sumsq_drop_first, lemma_sumsq_subrange1, lemma_is_min_of, lemma_is_max_of, lemma_smin_push, lemma_smax_push, lemma_smin_drop_first, lemma_smax_drop_first, lemma_smin_subrange1, lemma_smax_subrange1, lemma_smin_le_first, lemma_smax_ge_first, lemma_sum_push, lemma_sum_drop_first, lemma_sum_subrange1, lemma_sum_empty }
