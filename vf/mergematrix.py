#!/usr/bin/env python3
"""merges rows of several matrix_*.json files (outputs of vf/matrix.py runs) into gen/matrix_seeded.json / gen/matrix_refactors.json:
rows are united property by property, later files win.  usage: mergematrix.py seeded|refactors FILE [FILE ...]"""
import json, os, sys
ROOT = os.path.dirname(os.path.dirname(os.path.abspath(__file__)))
kind = sys.argv[1]
out = {}
for f in sys.argv[2:]:
    if not os.path.exists(f): print('missing', f); continue
    for name, row in json.load(open(f)).items():
        out.setdefault(name, {}).update(row)
os.makedirs(os.path.join(ROOT, 'gen'), exist_ok=True)
json.dump(out, open(os.path.join(ROOT, 'gen', 'matrix_%s.json' % kind), 'w'), indent=1)
json.dump(out, open(os.path.join(ROOT, kind, 'matrix.json'), 'w'), indent=1)
print(kind, len(out), 'rows')
