// pure real algebra, part 2 (kept in a separate module: Z3 handles each module in its own process, and long sequences of
// nonlinear queries in one process became unstable)
use vstd::prelude::*;
// Cauchy-Schwarz, one term at a time: (p + a b)^2 <= (q + a^2)(r + b^2) provided p^2 <= q r, q, r >= 0
pub proof fn lemma_cs_step(p: real, q: real, r: real, a: real, b: real)
    requires p * p <= q * r, q >= 0real, r >= 0real
    ensures (p + a * b) * (p + a * b) <= (q + a * a) * (r + b * b), q + a * a >= 0real, r + b * b >= 0real
{
    let ab = a * b; let aa = a * a; let bb = b * b;
    assert(aa >= 0real && bb >= 0real) by(nonlinear_arith) requires aa == a * a, bb == b * b;
    assert((p + ab) * (p + ab) == p * p + 2real * (p * ab) + ab * ab) by(nonlinear_arith);
    assert((q + aa) * (r + bb) == q * r + q * bb + aa * r + aa * bb) by(nonlinear_arith);
    assert(ab * ab == aa * bb) by(nonlinear_arith) requires ab == a * b, aa == a * a, bb == b * b;
    // 2 p a b <= q b^2 + r a^2 :  (q b^2 + r a^2)^2 >= 4 q r a^2 b^2 >= 4 p^2 a^2 b^2
    let t = q * bb + aa * r; let u = p * ab;
    assert(t >= 0real) by(nonlinear_arith) requires t == q * bb + aa * r, q >= 0real, r >= 0real, aa >= 0real, bb >= 0real;
    assert(t * t >= 4real * ((q * r) * (aa * bb))) by(nonlinear_arith) requires t == q * bb + aa * r;
    assert(aa * bb >= 0real) by(nonlinear_arith) requires aa >= 0real, bb >= 0real;
    assert((q * r) * (aa * bb) >= (p * p) * (aa * bb)) by(nonlinear_arith) requires p * p <= q * r, aa * bb >= 0real;
    assert(u * u == (p * p) * (aa * bb)) by(nonlinear_arith) requires u == p * ab, ab * ab == aa * bb;
    assert(2real * u <= t) by(nonlinear_arith) requires t >= 0real, t * t >= 4real * (u * u);
}
pub proof fn vsct_s1(out: real, s: real, d: real) requires out * s == d ensures d * d == (out * out) * (s * s)
{ assert(d * d == (out * out) * (s * s)) by(nonlinear_arith) requires out * s == d; }
pub proof fn vsct_s2(dd: real, oo: real, ss: real, k1: real, m2: real) requires dd == oo * ss, ss * k1 == m2 ensures dd * k1 == oo * m2
{ assert(dd * k1 == oo * m2) by(nonlinear_arith) requires dd == oo * ss, ss * k1 == m2; }
pub proof fn vsct_s3(k: real, dd: real, oo: real, m2: real) requires k * dd <= (k - 1real) * m2, dd * (k - 1real) == oo * m2, k >= 2real
  ensures k * (oo * m2) <= ((k - 1real) * (k - 1real)) * m2
{
    let k1 = k - 1real;
    assert((k * dd) * k1 <= (k1 * m2) * k1) by(nonlinear_arith) requires k * dd <= k1 * m2, k1 >= 1real;
    assert((k * dd) * k1 == k * (dd * k1)) by(nonlinear_arith);
    assert((k1 * m2) * k1 == (k1 * k1) * m2) by(nonlinear_arith);
}
pub proof fn vsct_s4(k: real, oo: real, m2: real, c: real) requires k * (oo * m2) <= c * m2, m2 > 0real ensures k * oo <= c
{
    assert(k * (oo * m2) == (k * oo) * m2) by(nonlinear_arith);
    assert(k * oo <= c) by(nonlinear_arith) requires (k * oo) * m2 <= c * m2, m2 > 0real;
}
pub proof fn vsct_s5(n: real, k: real) requires n >= k, k >= 2real ensures ((k - 1real) * (k - 1real)) * n <= ((n - 1real) * (n - 1real)) * k
{
    // (n-1)^2 k - (k-1)^2 n = (n-k)(nk-1)
    let a = n - 1real; let b = k - 1real;
    assert(a * a == n * n - 2real * n + 1real) by(nonlinear_arith) requires a == n - 1real;
    assert(b * b == k * k - 2real * k + 1real) by(nonlinear_arith) requires b == k - 1real;
    assert((a * a) * k == (n * n) * k - 2real * (n * k) + k) by(nonlinear_arith) requires a * a == n * n - 2real * n + 1real;
    assert((b * b) * n == (k * k) * n - 2real * (n * k) + n) by(nonlinear_arith) requires b * b == k * k - 2real * k + 1real;
    let nk = n * k;
    assert((n * n) * k == n * nk && (k * k) * n == k * nk) by(nonlinear_arith) requires nk == n * k;
    assert(n * nk - k * nk == (n - k) * nk) by(nonlinear_arith);
    assert(nk >= 1real) by(nonlinear_arith) requires nk == n * k, n >= 2real, k >= 2real;
    assert((n - k) * nk >= (n - k)) by(nonlinear_arith) requires n >= k, nk >= 1real;
}
pub proof fn vsct_s6(z: real, c: real) requires z * z <= c * c, c >= 0real ensures -c <= z <= c
{ assert(-c <= z <= c) by(nonlinear_arith) requires z * z <= c * c, c >= 0real; }
// Samuelson-type bound used for |Vsct| <= (N-1)/sqrt(N)
pub proof fn lemma_vsct_core(k: real, n: real, d: real, m2: real, s: real, r: real, out: real)
    requires k >= 2real, n >= k, m2 > 0real, s > 0real, r > 0real,
        k * (d * d) <= (k - 1real) * m2, (s * s) * (k - 1real) == m2, out * s == d, r * r == n
    ensures -(n - 1real) <= out * r <= n - 1real
{
    let oo = out * out; let dd = d * d; let c = (k - 1real) * (k - 1real);
    vsct_s1(out, s, d);
    vsct_s2(dd, oo, s * s, k - 1real, m2);
    vsct_s3(k, dd, oo, m2);
    vsct_s4(k, oo, m2, c);
    vsct_s5(n, k);
    // k oo <= c ; c n <= (n-1)^2 k  ==>  oo n <= (n-1)^2
    let e = (n - 1real) * (n - 1real);
    assert((k * oo) * n <= c * n) by(nonlinear_arith) requires k * oo <= c, n >= 2real;
    assert((k * oo) * n == (oo * n) * k) by(nonlinear_arith);
    vsct_s4b(oo * n, e, k);
    let z = out * r;
    assert(z * z == oo * n) by(nonlinear_arith) requires z == out * r, oo == out * out, r * r == n;
    vsct_s6(z, n - 1real);
}
pub proof fn vsct_s4b(x: real, e: real, k: real) requires x * k <= e * k, k > 0real ensures x <= e
{ assert(x <= e) by(nonlinear_arith) requires x * k <= e * k, k > 0real; }

// j further terms with the same (a, b): (p + j a b)^2 <= (q + j a^2)(r + j b^2)
pub proof fn lemma_cs_pad(p: real, q: real, r: real, a: real, b: real, j: nat)
    requires p * p <= q * r, q >= 0real, r >= 0real
    ensures ({ let jr = j as real; (p + jr * (a * b)) * (p + jr * (a * b)) <= (q + jr * (a * a)) * (r + jr * (b * b)) && q + jr * (a * a) >= 0real && r + jr * (b * b) >= 0real })
    decreases j
{
    if j == 0 {
        assert(0real * (a * b) == 0real && 0real * (a * a) == 0real && 0real * (b * b) == 0real) by(nonlinear_arith);
    } else {
        lemma_cs_pad(p, q, r, a, b, (j - 1) as nat);
        let i = (j - 1) as real; let jr = j as real;
        assert(jr == i + 1real);
        lemma_cs_step(p + i * (a * b), q + i * (a * a), r + i * (b * b), a, b);
        assert((i + 1real) * (a * b) == i * (a * b) + a * b) by(nonlinear_arith);
        assert((i + 1real) * (a * a) == i * (a * a) + a * a) by(nonlinear_arith);
        assert((i + 1real) * (b * b) == i * (b * b) + b * b) by(nonlinear_arith);
    }
}
// |c| <= s when c^2 <= s^2 and s > 0
pub proof fn lemma_abs_le_from_squares(c: real, s: real) requires c * c <= s * s, s > 0real ensures -s <= c <= s
{ assert(-s <= c <= s) by(nonlinear_arith) requires c * c <= s * s, s > 0real; }
// scaling the three centred sums by N:  X = x N, Q = q N, R = r N  and  x^2 <= q r  give  X^2 <= Q R
pub proof fn lemma_scale_cs(x: real, q: real, r: real, n: real, xx: real, qq: real, rr: real)
    requires x * x <= q * r, xx == x * n, qq == q * n, rr == r * n
    ensures xx * xx <= qq * rr
{
    let nn = n * n;
    assert(nn >= 0real) by(nonlinear_arith) requires nn == n * n;
    assert(xx * xx == (x * x) * nn) by(nonlinear_arith) requires xx == x * n, nn == n * n;
    assert(qq * rr == (q * r) * nn) by(nonlinear_arith) requires qq == q * n, rr == r * n, nn == n * n;
    assert((x * x) * nn <= (q * r) * nn) by(nonlinear_arith) requires x * x <= q * r, nn >= 0real;
}
// centred sums times N in terms of raw sums (m N = s1, e N = s2):
pub proof fn lemma_centered_times_n(n: real, m: real, e: real, s1: real, s2: real, sxy: real, cross: real)
    requires m * n == s1, e * n == s2, cross == sxy - m * s2 - e * s1 + n * (m * e)
    ensures cross * n == n * sxy - s1 * s2
{
    assert(cross * n == sxy * n - (m * s2) * n - (e * s1) * n + (n * (m * e)) * n) by(nonlinear_arith) requires cross == sxy - m * s2 - e * s1 + n * (m * e);
    assert((m * s2) * n == (m * n) * s2) by(nonlinear_arith);
    assert((e * s1) * n == (e * n) * s1) by(nonlinear_arith);
    assert((n * (m * e)) * n == (m * n) * (e * n)) by(nonlinear_arith);
    assert(s2 * s1 == s1 * s2) by(nonlinear_arith);
    assert(sxy * n == n * sxy) by(nonlinear_arith);
}

pub proof fn lemma_spread_affine(n: real, s: real, q: real, a: real, b: real)
    ensures n * ((a * a) * q + 2real * (a * b) * s + n * (b * b)) - (a * s + n * b) * (a * s + n * b) == (a * a) * (n * q - s * s)
{
    let u = a * s; let v = n * b;
    assert((u + v) * (u + v) == u * u + 2real * (u * v) + v * v) by(nonlinear_arith);
    assert(u * u == (a * a) * (s * s)) by(nonlinear_arith) requires u == a * s;
    assert(u * v == (a * b) * (s * n)) by(nonlinear_arith) requires u == a * s, v == n * b;
    assert(v * v == (n * n) * (b * b)) by(nonlinear_arith) requires v == n * b;
    assert(2real * (a * b) * (s * n) == 2real * ((a * b) * (s * n))) by(nonlinear_arith);
    assert(n * ((a * a) * q + 2real * (a * b) * s + n * (b * b)) == (a * a) * (n * q) + 2real * (a * b) * (s * n) + (n * n) * (b * b)) by(nonlinear_arith);
    assert((a * a) * (n * q - s * s) == (a * a) * (n * q) - (a * a) * (s * s)) by(nonlinear_arith);
}

// closed forms of sum_{i<k} i and sum_{i<k} i^2 (inductive steps) and positivity of k*isq - isum^2
pub proof fn lemma_isum_step(k: real, s: real) requires s * 2real == k * (k - 1real) ensures (s + k) * 2real == (k + 1real) * k
{ assert((k + 1real) * k == k * (k - 1real) + 2real * k) by(nonlinear_arith); }
pub proof fn lemma_isq_step(k: real, q: real) requires q * 6real == (k - 1real) * k * (2real * k - 1real) ensures (q + k * k) * 6real == k * (k + 1real) * (2real * k + 1real)
{
    let kk = k * k;
    assert((k - 1real) * k * (2real * k - 1real) == 2real * (kk * k) - 3real * kk + k) by(nonlinear_arith) requires kk == k * k;
    assert(k * (k + 1real) * (2real * k + 1real) == 2real * (kk * k) + 3real * kk + k) by(nonlinear_arith) requires kk == k * k;
}
pub proof fn lemma_index_spread_positive(k: real, s: real, q: real)
    requires k >= 2real, s * 2real == k * (k - 1real), q * 6real == (k - 1real) * k * (2real * k - 1real)
    ensures k * q - s * s > 0real
{
    let kk = k * k;
    // 12 (k q - s^2) = 2 k (6 q) - 3 (2 s)^2 = 2 k (k-1) k (2k-1) - 3 k^2 (k-1)^2 = k^2 (k-1)(k+1)
    let s2 = s * 2real; let q6 = q * 6real;
    assert((k * q - s * s) * 12real == 2real * (k * q6) - 3real * (s2 * s2)) by(nonlinear_arith) requires s2 == s * 2real, q6 == q * 6real;
    assert(k * q6 == kk * ((k - 1real) * (2real * k - 1real))) by(nonlinear_arith) requires q6 == (k - 1real) * k * (2real * k - 1real), kk == k * k;
    assert(s2 * s2 == kk * ((k - 1real) * (k - 1real))) by(nonlinear_arith) requires s2 == k * (k - 1real), kk == k * k;
    let u = k - 1real;
    assert(2real * (u * (2real * k - 1real)) - 3real * (u * u) == u * (k + 1real)) by(nonlinear_arith) requires u == k - 1real;
    assert(2real * (kk * (u * (2real * k - 1real))) - 3real * (kk * (u * u)) == kk * (u * (k + 1real))) by(nonlinear_arith)
        requires 2real * (u * (2real * k - 1real)) - 3real * (u * u) == u * (k + 1real);
    assert(kk * (u * (k + 1real)) > 0real) by(nonlinear_arith) requires kk == k * k, u == k - 1real, k >= 2real;
}
// Two-pole section with input:  f2 = u + b1 f1 - a^2 f0,  b1 = 2 a c,  |c| <= 1,  0 < a < 1.  With the Lyapunov form
// V(d1, d0) = d1^2 - b1 d1 d0 + a^2 d0^2 :  V(f2, f1) <= (a sqrt(V(f1, f0)) + |u|)^2.  Stated without square roots: if V(f1, f0) <= m^2,
// |u| <= ub and (1 - a) m == ub then V(f2, f1) <= m^2  (bounded input, bounded state, for ever).
pub proof fn lemma_two_pole_forced(a: real, c: real, f0: real, f1: real, u: real, m: real, ub: real)
    requires 0real < a < 1real, -1real <= c <= 1real, m >= 0real, ub >= 0real, -ub <= u <= ub, (1real - a) * m == ub,
        f1 * f1 - (2real * a * c) * (f1 * f0) + (a * a) * (f0 * f0) <= m * m
    ensures ({ let b1 = 2real * a * c; let f2 = u + (b1 * f1 + (-a * a) * f0);
               f2 * f2 - b1 * (f2 * f1) + (a * a) * (f1 * f1) <= m * m })
{
    let b1 = 2real * a * c; let aa = a * a;
    let h = b1 * f1 + (-a * a) * f0;
    let vh = h * h - b1 * (h * f1) + aa * (f1 * f1);
    let v0 = f1 * f1 - b1 * (f1 * f0) + aa * (f0 * f0);
    crate::alg::lemma_two_pole_lyapunov(a, c, f0, f1);
    assert(vh == aa * v0);
    let f2 = u + h;
    let v2 = f2 * f2 - b1 * (f2 * f1) + aa * (f1 * f1);
    let d = 2real * h - b1 * f1;
    assert(f2 * f2 == h * h + 2real * (h * u) + u * u) by(nonlinear_arith) requires f2 == u + h;
    assert(f2 * f1 == h * f1 + u * f1) by(nonlinear_arith) requires f2 == u + h;
    assert(b1 * (h * f1 + u * f1) == b1 * (h * f1) + b1 * (u * f1)) by(nonlinear_arith);
    assert(u * d == 2real * (h * u) - b1 * (u * f1)) by(nonlinear_arith) requires d == 2real * h - b1 * f1;
    assert(v2 == vh + u * d + u * u);
    // d^2 = 4 vh - (4 a^2 - b1^2) f1^2 <= 4 vh
    let hf = h * f1; let ff = f1 * f1; let hh = h * h;
    assert(d * d == 4real * hh - 4real * (b1 * hf) + (b1 * b1) * ff) by(nonlinear_arith) requires d == 2real * h - b1 * f1, hf == h * f1, ff == f1 * f1, hh == h * h;
    assert(b1 * b1 == 4real * aa * (c * c)) by(nonlinear_arith) requires b1 == 2real * a * c, aa == a * a;
    assert(c * c <= 1real) by(nonlinear_arith) requires -1real <= c <= 1real;
    assert(aa >= 0real) by(nonlinear_arith) requires aa == a * a;
    assert(4real * aa * (c * c) <= 4real * aa) by(nonlinear_arith) requires aa >= 0real, c * c <= 1real;
    assert(ff >= 0real) by(nonlinear_arith) requires ff == f1 * f1;
    assert((4real * aa - b1 * b1) * ff >= 0real) by(nonlinear_arith) requires 4real * aa - b1 * b1 >= 0real, ff >= 0real;
    assert((4real * aa - b1 * b1) * ff == 4real * (aa * ff) - (b1 * b1) * ff) by(nonlinear_arith);
    assert(d * d <= 4real * vh);
    // vh = a^2 v0 <= a^2 m^2
    let mm = m * m;
    assert(aa * v0 <= aa * mm) by(nonlinear_arith) requires aa >= 0real, v0 <= mm;
    let k = 2real * a * m;
    assert(k * k == 4real * (aa * mm)) by(nonlinear_arith) requires k == 2real * a * m, aa == a * a, mm == m * m;
    assert(k >= 0real) by(nonlinear_arith) requires k == 2real * a * m, a > 0real, m >= 0real;
    assert(d * d <= k * k);
    assert(-k <= d <= k) by(nonlinear_arith) requires d * d <= k * k, k >= 0real;
    assert(u * d <= ub * k) by(nonlinear_arith) requires -ub <= u <= ub, -k <= d <= k, ub >= 0real, k >= 0real;
    assert(u * u <= ub * ub) by(nonlinear_arith) requires -ub <= u <= ub;
    // (a m + ub)^2 = a^2 m^2 + ub k + ub^2  and  a m + ub == m
    let am = a * m;
    assert(am + ub == m) by(nonlinear_arith) requires am == a * m, (1real - a) * m == ub;
    assert((am + ub) * (am + ub) == am * am + 2real * (am * ub) + ub * ub) by(nonlinear_arith);
    assert(am * am == aa * mm) by(nonlinear_arith) requires am == a * m, aa == a * a, mm == m * m;
    assert(2real * (am * ub) == ub * k) by(nonlinear_arith) requires am == a * m, k == 2real * a * m;
    assert(m * m == aa * mm + ub * k + ub * ub);
    assert(v2 <= mm);
}
// the Lyapunov form dominates the newest component:  (1 - c^2) d1^2 <= V(d1, d0)
pub proof fn lemma_two_pole_form_dominates(a: real, c: real, d1: real, d0: real)
    ensures (1real - c * c) * (d1 * d1) <= d1 * d1 - (2real * a * c) * (d1 * d0) + (a * a) * (d0 * d0)
{
    let w = a * d0;
    assert((2real * a * c) * (d1 * d0) == 2real * c * (d1 * w)) by(nonlinear_arith) requires w == a * d0;
    assert((a * a) * (d0 * d0) == w * w) by(nonlinear_arith) requires w == a * d0;
    assert(d1 * d1 - 2real * c * (d1 * w) + w * w == (w - c * d1) * (w - c * d1) + (1real - c * c) * (d1 * d1)) by(nonlinear_arith);
    assert((w - c * d1) * (w - c * d1) >= 0real) by(nonlinear_arith);
}
// Double pole with input (the high-pass of RoofingFilter, the cycle recursion of CyberCycle):  h' = u + 2 r h1 - r^2 h2  is the cascade
// w' = u + r w,  h' = w' + r h1  with  w = h1 - r h2.  For |r| <= rho < 1 and |u| <= ub:  |w| <= wb and |h| <= hb for ever,
// where (1 - rho) wb == ub and (1 - rho) hb == wb.
pub proof fn lemma_double_pole_forced(r: real, rho: real, u: real, h1: real, h2: real, ub: real, wb: real, hb: real)
    requires -rho <= r <= rho, 0real <= rho < 1real, -ub <= u <= ub, -wb <= h1 - r * h2 <= wb, -hb <= h1 <= hb,
        (1real - rho) * wb == ub, (1real - rho) * hb == wb, ub >= 0real
    ensures ({ let hn = u + 2real * r * h1 - (r * r) * h2;
               -wb <= hn - r * h1 <= wb && -hb <= hn <= hb }),
        wb >= 0real, hb >= 0real
{
    let w = h1 - r * h2;
    let hn = u + 2real * r * h1 - (r * r) * h2;
    assert(wb >= 0real) by(nonlinear_arith) requires (1real - rho) * wb == ub, ub >= 0real, rho < 1real;
    assert(hb >= 0real) by(nonlinear_arith) requires (1real - rho) * hb == wb, wb >= 0real, rho < 1real;
    assert(r * w == r * h1 - (r * r) * h2) by(nonlinear_arith) requires w == h1 - r * h2;
    assert(hn - r * h1 == u + r * w) by(nonlinear_arith) requires hn == u + 2real * r * h1 - (r * r) * h2, r * w == r * h1 - (r * r) * h2;
    assert(-(rho * wb) <= r * w <= rho * wb) by(nonlinear_arith) requires -rho <= r <= rho, -wb <= w <= wb, rho >= 0real, wb >= 0real;
    assert(ub + rho * wb == wb) by(nonlinear_arith) requires (1real - rho) * wb == ub;
    assert(-(rho * hb) <= r * h1 <= rho * hb) by(nonlinear_arith) requires -rho <= r <= rho, -hb <= h1 <= hb, rho >= 0real, hb >= 0real;
    assert(wb + rho * hb == hb) by(nonlinear_arith) requires (1real - rho) * hb == wb;
}
