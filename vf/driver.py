#!/usr/bin/env python3
"""check driver:  driver.py <PROPERTY-ID> [--tier quick|thorough] [--replay FILE]

extract (from /repo's working tree) -> verus on the modules that carry obligations of the property ->
attribute every failed obligation -> verdict -> evidence/<id>.json.
exit 0: every deciding obligation of the property discharged (known findings are printed, not alarmed)
exit 1: `VIOLATION property=<id> replay=<path>` (a deciding obligation failed, or the bounded fallback found a failing input)
exit 2: machinery problem (unsupported construct, lost anchor, solver resource-out, inconsistent trusted base)
"""
import os, sys, re, json, subprocess, time, shutil, hashlib

VF = os.path.dirname(os.path.abspath(__file__))
ROOT = os.path.dirname(VF)
sys.path.insert(0, VF)
import extract

REPO = os.environ.get('VERIF_REPO', '/repo')
NTHREADS = int(os.environ.get('VERIF_THREADS', '16'))

def sh(cmd, timeout=None, env=None, cwd=None):
    """run a command in its own process group; on timeout kill exactly that group (never other users' solvers)"""
    import signal
    t0 = time.time()
    p = subprocess.Popen(cmd, shell=isinstance(cmd, str), stdout=subprocess.PIPE, stderr=subprocess.PIPE, text=True, env=env, cwd=cwd, start_new_session=True)
    try:
        out, err = p.communicate(timeout=timeout)
        return p.returncode, out, err, time.time() - t0
    except subprocess.TimeoutExpired:
        try: os.killpg(p.pid, signal.SIGKILL)
        except Exception: pass
        out, err = p.communicate()
        return 124, out or '', 'TIMEOUT', time.time() - t0

# ------------------------------------------------------------------ verus
ERR_RE = re.compile(r'^(error|warning|note)(\[[^\]]*\])?: (.*)$')
LOC_RE = re.compile(r'^\s*--> ([^:]+):(\d+):(\d+)')
SRC_RE = re.compile(r'^\s*(\d+)\s*\|')

def parse_stderr(txt):
    """-> list of dict(msg, primary, lines, text)"""
    errs, cur = [], None
    for ln in txt.split('\n'):
        m = ERR_RE.match(ln)
        if m:
            if cur: errs.append(cur)
            cur = dict(level=m.group(1), msg=m.group(3), primary=None, lines=[], marked={}, text=[ln]) if m.group(1) == 'error' else None
            continue
        if cur is None: continue
        cur['text'].append(ln)
        m = LOC_RE.match(ln)
        if m and cur['primary'] is None:
            cur['primary'] = int(m.group(2))
        m = SRC_RE.match(ln)
        if m:
            cur['lines'].append(int(m.group(1)))
            cur['_last'] = int(m.group(1))
        m2 = re.match(r'^\s*\|\s*[-^]+\s*(.*)$', ln)
        if m2 and '_last' in cur and m2.group(1).strip():
            cur['marked'][cur['_last']] = m2.group(1).strip()
    if cur: errs.append(cur)
    return [e for e in errs if not e['msg'].startswith('aborting due to')]

def run_verus(gen, modules, rlimit=30, timeout=900, extra=''):
    mods = ' '.join('--verify-module %s' % m for m in modules)
    cmd = 'verus %s --multiple-errors 40 --num-threads %d --output-json --time-expanded --triggers-mode silent --rlimit %d %s %s' % (gen, NTHREADS, rlimit, mods, extra)
    rc, out, err, wall = sh(cmd, timeout=timeout, cwd=os.path.dirname(os.path.abspath(gen)))     # rustc drops its `*.long-type-*.txt` files into the cwd
    js = None
    try:
        js = json.loads(out)
    except Exception:
        pass
    return dict(rc=rc, json=js, stderr=err, wall=wall, cmd=cmd)

def fn_results(js):
    res = {}
    if not js: return res
    for m in js.get('times-ms', {}).get('smt', {}).get('smt-run-module-times', []):
        for f in m.get('function-breakdown', []):
            res[f['function']] = dict(ok=f['success'], ms=f['time'], rlimit=f['rlimit'], mode=f.get('mode:'), module=m['module'])
    return res

# ------------------------------------------------------------------ attribution
SAFETY_KINDS = [('possible arithmetic underflow/overflow', 'arith'), ('precondition not satisfied', 'precond'),
                ('assertion failed', 'assert'), ('possible division by zero', 'div0'), ('index out of bounds', 'index'),
                ('recommendation not met', 'recommend')]
PARTIAL_OPS = ('div_req', 'fn sqrt', 'fn ln', 'requires self.v() >= 0real', 'requires self.v() > 0real', 'rhs.v() != 0real')

def attribute(err, rep, gen_lines):
    """map one verus error to an obligation record"""
    lmap, spans = rep['line_map'], rep['fnspans']
    def in_fn(line):
        for a, b, mod, fn in spans:
            if a <= line <= b: return mod, fn
        return None
    # a labelled clause among the lines shown?
    for ln in [err['primary']] + err['lines']:
        if ln is not None and str(ln) in lmap:
            o = dict(lmap[str(ln)])
            # find the function the failure occurred in (clause of a callee violated at a call site => safety of caller)
            site = None
            for l2 in err['lines']:
                f = in_fn(l2)
                if f and (f[0] != o['module'] or not o['fn'].startswith(f[1])):
                    site = f
            o.update(line=ln, msg=err['msg'], site=site)
            if err['msg'].startswith('precondition not satisfied') and site:
                return dict(module=site[0], fn=site[1], kind='safety', label='precond:%s::%s' % (o['module'], o['label']), tags=['C15'], line=ln, msg=err['msg'], text=o['text'])
            return o
    # a failure inside injected proof text (a lemma precondition, an auxiliary assert): the hint no longer fits the code.
    # It is not an obligation of the code; the labelled clause it was meant to support fails on its own if the property broke.
    if err['primary'] in set(rep.get('hint_lines', [])):
        f = in_fn(err['primary'])
        return dict(module=f[0] if f else '?', fn=f[1] if f else '?', kind='hint', label='proof-hint', tags=[], line=err['primary'], msg=err['msg'],
                    text=gen_lines[err['primary'] - 1].strip())
    # otherwise a built-in obligation: locate the enclosing function
    where = None
    for ln in [err['primary']] + err['lines']:
        if ln is None: continue
        f = in_fn(ln)
        if f: where = (f, ln); break
    txt = '\n'.join(err['text'])
    if where:
        (mod, fn), ln = where
        kind = 'other'
        for pat, k in SAFETY_KINDS:
            if err['msg'].startswith(pat): kind = k
        tags = ['C15']
        if kind == 'precond' and any(p in txt for p in PARTIAL_OPS):
            tags = ['C15', 'C08']
        src0 = gen_lines[ln - 1].strip() if ln - 1 < len(gen_lines) else ''
        if kind == 'arith' and re.search(r'(\+=\s*1\s*;|\+\s*1\s*;)', src0) and '-' not in src0:
            # a monotone counter incremented by one: an overflow needs 2^64 updates (stated assumption) - undecided, never a C15 verdict
            kind, tags = 'counter-overflow', []
        if kind == 'precond' and any('Self::accepts(' in (gen_lines[l2 - 1] if 0 < l2 <= len(gen_lines) else '') for l2 in err['lines'] if l2):
            # the callee's stated INPUT DOMAIN could not be shown for the value passed: a question about the domain assumption, not a panic
            kind, tags = 'domain', []
        if err['msg'].startswith('postcondition not satisfied') or err['msg'].startswith('invariant not satisfied'):
            # unlabelled clause: the trait-level contract (inv / abs == step) - derived from the labelled ones
            return dict(module=mod, fn=fn, kind='trait', label='trait-contract', tags=[], line=ln, msg=err['msg'], text=gen_lines[err['primary'] - 1].strip() if err['primary'] else '')
        src = gen_lines[ln - 1].strip() if ln - 1 < len(gen_lines) else ''
        return dict(module=mod, fn=fn, kind='safety', label='%s@%s' % (kind, re.sub(r'\s+', ' ', src)[:60]), tags=tags, line=ln, msg=err['msg'], text=src)
    # lemma in props / lem / shim
    ln = err['primary'] or (err['lines'][0] if err['lines'] else 0)
    return dict(module=module_of_line(ln, gen_lines), fn=fn_of_line(ln, gen_lines), kind='lemma', label='lemma', tags=[], line=ln, msg=err['msg'],
                text=gen_lines[ln - 1].strip() if 0 < ln <= len(gen_lines) else '')

def module_of_line(ln, gen_lines):
    stack = []
    for i, l in enumerate(gen_lines[:ln], 1):
        m = re.match(r'\s*pub mod (\w+) \{', l)
        if m: stack.append(m.group(1))
        elif re.match(r'\s*\} // mod (\w+)', l) and stack: stack.pop()
    return '::'.join(stack)

def fn_of_line(ln, gen_lines):
    for i in range(ln - 1, -1, -1):
        m = re.search(r'\bfn (\w+)', gen_lines[i]) if i < len(gen_lines) else None
        if m: return m.group(1)
    return '?'

# ------------------------------------------------------------------ known findings
def load_known():
    path = os.path.join(ROOT, 'KNOWN_FINDINGS.txt')
    out = []
    if not os.path.exists(path): return out
    for ln in open(path):
        ln = ln.strip()
        if not ln.startswith('finding:'): continue
        d = dict(re.findall(r'(\w+)=("[^"]*"|\S+)', ln))
        d = {k: v.strip('"') for k, v in d.items()}
        d['raw'] = ln
        out.append(d)
    return out

def finding_matches(k, pid, f):
    if k.get('property') != pid: return False
    if k.get('view') and k['view'] != f['module'].split('::')[-1]: return False
    if k.get('obligation') and k['obligation'] not in ('%s:%s' % (f['fn'], f['label'])): return False
    return not k.get('witness')     # findings with a witness file are input-level (probe) findings, not obligation-level

# ------------------------------------------------------------------ probe (bounded search / replay on the real crate)
_PROBE = {}
def probe_build():
    """build /verif/probe against REPO's working tree; returns path of the binary or None"""
    if 'bin' in _PROBE: return _PROBE['bin'], _PROBE.get('msg', '')
    pdir = os.environ.get('VERIF_PROBE_DIR', os.path.join(ROOT, 'probe'))
    tdir = os.environ.get('VERIF_PROBE_TARGET', os.path.join(ROOT, 'gen', 'probe-target'))
    env = dict(os.environ, CARGO_NET_OFFLINE='true', CARGO_TARGET_DIR=tdir)
    cargo = open(os.path.join(pdir, 'Cargo.toml.in')).read().replace('@REPO@', REPO)
    cpath = os.path.join(pdir, 'Cargo.toml')
    if not os.path.exists(cpath) or open(cpath).read() != cargo:
        open(cpath, 'w').write(cargo)
    rc, out, err, wall = sh('cargo build --release --offline -q', timeout=1200, env=env, cwd=pdir)
    _PROBE['bin'] = os.path.join(tdir, 'release', 'probe') if rc == 0 else None
    _PROBE['msg'] = '' if rc == 0 else err[-3000:]
    _PROBE['build_s'] = wall
    return _PROBE['bin'], _PROBE['msg']

def probe_search(pid, seed, budget, views=None, skip=None):
    binp, msg = probe_build()
    if not binp: return dict(available=False, note='probe does not build against this tree: ' + msg[-600:])
    cmd = [binp, 'search', pid, '--seed', str(seed), '--budget', str(budget)]
    if views: cmd += ['--views', ','.join(views)]
    if skip: cmd += ['--skip', ','.join(skip)]
    rc, out, err, wall = sh(cmd, timeout=1500)
    res = dict(available=True, wall_s=round(wall, 2), rc=rc, cmd=' '.join(cmd).replace(binp, 'probe'), bound='window lengths 1..7, streams of at most 3N+8 small dyadic values, %d cases' % budget)
    try:
        res.update(json.loads(out.strip().split('\n')[-1]))
    except Exception:
        res['note'] = (out + err)[-1000:]
    return res

def probe_replay(path, no_skip=True):
    binp, msg = probe_build()
    if not binp: return None, 'probe does not build: ' + msg[-300:]
    env = dict(os.environ)
    if no_skip: env['PROBE_NO_SKIP'] = '1'
    rc, out, err, wall = sh([binp, 'replay', path], timeout=600, env=env)
    return rc, out.strip().split('\n')[-1] if out.strip() else err[-300:]

KANI_QUICK = ['echo_constant_bits', 'gte_bits', 'lte_bits', 'multiply_divide_gating', 'add_bits', 'subtract_bits']
KANI_THOROUGH = KANI_QUICK + ['multiply_bits']
# bounded checks (<= 3 elements, every ring-buffer layout, all finite f64 values) of the std contracts the Verus shim ASSUMES (R2 min_by/max_by,
# R6 last().copied(), R1/R10 iteration order, M4 clone of scalar buffers, VecDeque::{front, back, get, is_empty, index}); thorough tier of the
# properties whose proofs lean on them.  Bounded stand-ins for trusted contracts, never counted as proof; a failure is a wrong assumption (exit 2)
KANI_STD = ['std_min_max_by', 'std_deque_access', 'std_clone_last']
KANI_STD_PROPS = ('C02', 'C15', 'C17')
def kani_run(harnesses, timeout=1800):
    """complete loop-free bit-level proofs on the real crate (C14); returns dict(harness -> 'SUCCESSFUL'|'FAILED'|'ERROR')"""
    kdir = os.environ.get('VERIF_KANI_DIR', os.path.join(ROOT, 'kani'))
    cargo = open(os.path.join(kdir, 'Cargo.toml.in')).read().replace('@REPO@', REPO)
    cpath = os.path.join(kdir, 'Cargo.toml')
    if not os.path.exists(cpath) or open(cpath).read() != cargo: open(cpath, 'w').write(cargo)
    lock = os.path.join(REPO, 'Cargo.lock')
    if os.path.exists(lock): shutil.copy(lock, os.path.join(kdir, 'Cargo.lock'))
    env = dict(os.environ, CARGO_NET_OFFLINE='true')
    cmd = 'cargo kani -j %d --output-format terse %s' % (min(8, NTHREADS), ' '.join('--harness ' + h for h in harnesses))
    rc, out, err, wall = sh(cmd, timeout=timeout, env=env, cwd=kdir)
    res = {}
    cur = None
    for ln in (out + '\n' + err).split('\n'):
        m = re.search(r'Checking harness (?:\w+::)*(\w+)', ln)
        if m: cur = m.group(1)
        m2 = re.search(r'VERIFICATION:- (\w+)', ln)
        if m2 and cur: res[cur] = m2.group(1); cur = None
    # with -j the per-harness lines may be missing: fall back on the summary
    m = re.search(r'(\d+) successfully verified harnesses, (\d+) failures, (\d+) total', out + err)
    failed = re.findall(r'Failed Checks: (.*)', out + err)
    summary = dict(ok=int(m.group(1)), failed=int(m.group(2)), total=int(m.group(3))) if m else None
    return dict(cmd=cmd, wall_s=round(wall, 1), rc=rc, per_harness=res, summary=summary, failed_checks=failed[:10], tail=(out + err)[-1500:] if not m else '')

def self_test(pid):
    """thorough tier: apply every seeded change kept for this property to a scratch copy of the repository and confirm that this very
    check raises a VIOLATION on it (guards against a check that cannot fail)"""
    import glob, tempfile
    out = {}
    if os.environ.get('VERIF_NO_SELFTEST'): return out
    for sd in sorted(glob.glob(os.path.join(ROOT, 'seeded', pid + '-*'))):
        name = os.path.basename(sd)
        w = tempfile.mkdtemp(prefix='verif-selftest-')
        try:
            sh('cp -r %s/src %s/Cargo.toml %s/Cargo.lock %s/README.md %s/benches %s/' % (REPO, REPO, REPO, REPO, REPO, w))
            rc, o, e, _ = sh('cd %s && git init -q . && git apply %s/patch.diff' % (w, sd))
            if rc != 0: out[name] = 'patch does not apply to this tree'; continue
            for x in ('gen', 'ev', 'replay'): os.makedirs(os.path.join(w, x))
            shutil.copytree(os.path.join(ROOT, 'probe'), os.path.join(w, 'probe'), ignore=shutil.ignore_patterns('target'))
            shutil.copytree(os.path.join(ROOT, 'kani'), os.path.join(w, 'kani'), ignore=shutil.ignore_patterns('target'))
            env = dict(os.environ, VERIF_REPO=w, VERIF_GEN=os.path.join(w, 'gen'), VERIF_EVIDENCE_DIR=os.path.join(w, 'ev'), VERIF_REPLAY_DIR=os.path.join(w, 'replay'),
                       VERIF_PROBE_TARGET=os.path.join(w, 'pt'), VERIF_PROBE_DIR=os.path.join(w, 'probe'), VERIF_KANI_DIR=os.path.join(w, 'kani'), VERIF_TIER='quick', VERIF_NO_SELFTEST='1')
            rc, o, e, wall = sh('python3 %s %s' % (os.path.join(VF, 'driver.py'), pid), timeout=1800, env=env)
            out[name] = dict(detected=(rc == 1), rc=rc, wall_s=round(wall, 1), with_failing_input=('FAILING-INPUT' in o))
        finally:
            shutil.rmtree(w, ignore_errors=True)
    return out

def is_rlimit(e):
    return 'rlimit' in e['msg'].lower() or 'resource limit' in e['msg'].lower()

# ------------------------------------------------------------------ main
def main():
    args = sys.argv[1:]
    if not args: print(__doc__); sys.exit(2)
    pid = args[0]
    tier = os.environ.get('VERIF_TIER', 'quick')
    if '--tier' in args: tier = args[args.index('--tier') + 1]
    seed = int(os.environ.get('VERIF_SEED', '0') or 0)
    if '--replay' in args:
        path = args[args.index('--replay') + 1]
        rc, line = probe_replay(path)
        print(line)
        if rc == 1: print('VIOLATION property=%s replay=%s' % (pid, path)); sys.exit(1)
        sys.exit(0 if rc == 0 else 2)
    t0 = time.time()
    gdir = os.path.join(os.environ.get('VERIF_GEN', os.path.join(ROOT, 'gen')), pid)
    os.makedirs(gdir, exist_ok=True)
    os.makedirs(os.path.join(ROOT, 'evidence'), exist_ok=True)
    os.makedirs(os.path.join(ROOT, 'replay'), exist_ok=True)
    gen = os.path.join(gdir, 'all.rs')
    extract.REPO = REPO
    try:
        rep = extract.build(gen)
        # views whose extracted text no longer compiles together with its contracts (renamed local used by a hint, new helper ...)
        # are excluded like views outside the supported subset: properties depending on them become undecided, others are unaffected
        cache = os.path.join(ROOT, 'gen', 'compiled.sha')
        for attempt in range(3):
            sha = hashlib.sha256(open(gen, 'rb').read()).hexdigest()
            if os.path.exists(cache) and sha in open(cache).read().split():
                break                                   # this exact text was already type-checked by an earlier check of this session
            rc, out, err, wall = sh('verus %s --no-verify --triggers-mode silent --num-threads 4' % gen, timeout=600, cwd=os.path.dirname(os.path.abspath(gen)))
            if rc == 0:
                open(cache, 'a').write(sha + '\n')
            bad = {}
            if rc != 0:
                gl = open(gen).read().split('\n')
                for m in re.finditer(r'^error(?:\[E\d+\])?: (.*)\n(?:.*\n)??\s*--> [^:\n]+:(\d+):', err, re.M):
                    mod = module_of_line(int(m.group(2)), gl)
                    if mod.startswith('views::'): bad[mod.split('::')[1]] = 'does not compile with its contracts: ' + m.group(1)[:120]
                    elif mod.startswith('props::'): bad.setdefault('__props__', []).append(mod.split('::')[1]) if isinstance(bad.get('__props__', []), list) else None
            if not bad or not any(k != '__props__' for k in bad):
                if rc != 0 and not bad:
                    print('MACHINERY: verus rejected the generated text (not a verdict):\n' + err[:2500]); sys.exit(2)
                break
            excl = dict(rep.get('broken', {})); excl.update({k: v for k, v in bad.items() if k != '__props__'})
            rep = extract.build(gen, exclude=excl)
    except extract.ExtractError as e:
        print('MACHINERY: extraction failed (not a verdict): %s' % e); sys.exit(2)
    gen_lines = open(gen).read().split('\n')
    # numeric sanity check of the trusted axioms (vf/axcheck.py): a mistyped axiom is a wrong assumption, not a verdict
    import axcheck
    axs = axcheck.check(open(os.path.join(VF, 'shim.rs')).read()); axs.update(axcheck.check_literals('\n'.join(gen_lines)))
    if not axs['ok'] or axs['wrong']:
        print('MACHINERY: an axiom of the trusted shim fails its numeric sanity check (not a verdict): %s' % json.dumps(axs)[:1200]); sys.exit(2)
    lmap = rep['line_map']
    import claims
    if pid not in claims.CLAIMS:
        print('MACHINERY: %s is not claimed (see MANIFEST.not_applicable)' % pid); sys.exit(2)
    cfg = claims.CLAIMS[pid]
    vlist = rep['modules'] if cfg['views'] == claims.ALL else [m for m in cfg['views'] if m in rep['modules']]
    missing = [m for m in rep.get('broken', {})] if cfg['views'] == claims.ALL else [m for m in cfg['views'] if m not in rep['modules']]
    want_props = [os.path.basename(p)[:-3] for p in sorted(os.listdir(os.path.join(VF, 'props'))) if p.endswith('.rs') and p.lower().startswith(pid.lower())]
    missing_props = [p for p in want_props if p in rep.get('props_skipped', [])]
    if missing or missing_props:
        # the property depends on a view whose code left the supported subset: the proof is unavailable for it; only a replayed failing input may alarm
        pr = probe_search(pid, seed, 20000, None, sorted(set(k['skip'] for k in load_known() if k.get('property') == pid and k.get('skip'))))
        if pr.get('found'):
            rp = os.path.join(os.environ.get('VERIF_REPLAY_DIR', os.path.join(ROOT, 'replay')), '%s-%d.json' % (pid, int(time.time())))
            json.dump(dict(property=pid, violation='failing-input-found-by-bounded-search', case=pr.get('case'), probe=pr), open(rp, 'w'), indent=1)
            print('FAILING-INPUT: %s' % json.dumps(pr.get('case'))[:600]); print('VIOLATION property=%s replay=%s' % (pid, rp)); sys.exit(1)
        print('MACHINERY: views %s could not be brought under contract on this tree (%s); %s is undecided here (bounded search over %s cases found no failing input)' % (
            missing or missing_props, '; '.join('%s: %s' % kv for kv in rep.get('broken', {}).items())[:400], pid, pr.get('checked'))); sys.exit(2)
    mods = ['views::' + m for m in vlist]
    # property lemma modules of this property plus, transitively, the lemma modules they import (so the proof is self-contained)
    closure, todo = [], list(want_props)
    while todo:
        m = todo.pop()
        if m in closure or m in rep.get('props_skipped', []): continue
        closure.append(m)
        todo += re.findall(r'use crate::props::(\w+)::', open(os.path.join(VF, 'props', m + '.rs')).read())
    pmods = ['props::' + p for p in sorted(closure)] + (['lem', 'alg', 'alg2'] if closure else [])
    # a lemma module rests on the contracts of the views it mentions: those views are verified in the same run
    for m in closure:
        for v in re.findall(r'crate::views::(\w+)', open(os.path.join(VF, 'props', m + '.rs')).read()):
            if 'views::' + v not in mods and v in rep.get('views', [v]) and v not in rep.get('broken', {}):
                mods.append('views::' + v)
    if pid == 'C18' and rep.get('unbounded_buffers'):
        print('MACHINERY: buffer fields without a declared C18 bound: %s (needs contract work, not a verdict)' % rep['unbounded_buffers']); sys.exit(2)
    n_canaries = len(re.findall(r'proof fn canary_', '\n'.join(gen_lines)))
    # vacuity guards of the lemma modules used (`requires P ensures false` for every lemma precondition P): they MUST fail as well
    vmods = ['props::%s_vac' % m for m in sorted(closure) if rep.get('vacuity', {}).get(m)]
    n_canaries += sum(rep['vacuity'][m] for m in closure if rep.get('vacuity', {}).get(m))
    # ---- the deductive run
    rl = 40 if tier == 'quick' else 80
    # the canaries (module `canary`: `ensures false` with every broadcast group and axiom in scope) are verified in the same run and MUST fail
    res = run_verus(gen, mods + pmods + ['canary'] + vmods, rlimit=rl, timeout=600)
    if res['json'] is None:
        print('MACHINERY: verus produced no result (rc=%s)\n%s' % (res['rc'], res['stderr'][-3000:])); sys.exit(2)
    vr = res['json']['verification-results']
    if vr.get('encountered-vir-error') or (vr['errors'] == 0 and vr['verified'] == 0):
        print('MACHINERY: verus rejected the generated text (unsupported construct or contract text out of date)\n%s' % res['stderr'][-3000:]); sys.exit(2)
    errs = parse_stderr(res['stderr'])
    def split_canary(es):
        can = [e for e in es if e['primary'] and (module_of_line(e['primary'], gen_lines).endswith('canary') or module_of_line(e['primary'], gen_lines).endswith('_vac'))]
        return can, [e for e in es if e not in can]
    can_errs, errs = split_canary(errs)
    if len(can_errs) != n_canaries or n_canaries == 0:
        print('MACHINERY: %d of %d canaries failed as they must - the trusted base may be inconsistent (not a verdict)' % (len(can_errs), n_canaries)); sys.exit(2)
    # resource-outs: retry once with a much larger limit - but only the modules in which a function ran out of resources WITHOUT also
    # failing a definite obligation (a function that already has a definite failure is decided by that; re-solving it at 8x the limit is
    # what made one seeded Alma change take half an hour)
    rl_attr = [attribute(e, rep, gen_lines) for e in errs if is_rlimit(e)]
    definite = set((f['module'], f['fn'].split('/')[0]) for f in (attribute(e, rep, gen_lines) for e in errs if not is_rlimit(e)))
    retry_mods = sorted(set((('views::' + f['module']) if not f['module'].startswith(('props', 'lem', 'alg')) else f['module'])
                            for f in rl_attr if (f['module'], f['fn'].split('/')[0]) not in definite))
    res2 = None
    if retry_mods:
        res2 = run_verus(gen, retry_mods, rlimit=rl * 8, timeout=900)
        if res2['json'] is not None:
            errs2 = parse_stderr(res2['stderr'])
            keep = [e for e in errs if not (is_rlimit(e) and (lambda f: (f['module'], f['fn'].split('/')[0]) not in definite)(attribute(e, rep, gen_lines)))]
            errs = keep + errs2
    undecided = [attribute(e, rep, gen_lines) for e in errs if is_rlimit(e)]
    fails = [attribute(e, rep, gen_lines) for e in errs if not is_rlimit(e)]
    for f in fails:
        if f['kind'] == 'lemma' and f['module'].startswith('props::'):
            f['tags'] = [f['module'].split('::')[1][:3].upper()]
    if any(f['kind'] == 'lemma' and not f['module'].startswith('props') for f in fails):
        print('MACHINERY: a library lemma failed (not a verdict):', [(f['module'], f['fn']) for f in fails if f['kind'] == 'lemma']); sys.exit(2)
    deciding = [f for f in fails if pid in f['tags']]
    prereq = [f for f in fails if pid not in f['tags'] and f['kind'] != 'trait']
    for t in [f for f in fails if f['kind'] == 'trait']:
        # trait-level failure with no labelled failure in the same function: attribute conservatively to the function's tags
        if not any(f['module'] == t['module'] and f['fn'].split('/')[0] == t['fn'] for f in fails if f['kind'] != 'trait'):
            tags = sorted(set(tg for o in lmap.values() if o['module'] == t['module'] and o['fn'].split('/')[0] == t['fn'] for tg in o['tags']))
            t['tags'] = tags; t['label'] = 'trait-contract(unattributed)'
            (deciding if pid in tags else prereq).append(t)
    known = [k for k in load_known() if k.get('property') == pid]
    known_hits, new = [], []
    for f in deciding:
        ks = [k for k in known if finding_matches(k, pid, f)]
        (known_hits if ks else new).append((f, ks))
    # confirm a failure once with another solver seed before believing it
    if new:
        fmods = sorted(set(('views::' + f['module']) if not f['module'].startswith('props') else f['module'] for f, _ in new))
        res3 = run_verus(gen, fmods, rlimit=rl, timeout=900, extra='--smt-option random_seed=%d' % (seed + 7))
        errs3 = parse_stderr(res3['stderr'])
        fails3 = [attribute(e, rep, gen_lines) for e in errs3]
        keys3 = set((f['module'], f['fn'].split('/')[0]) for f in fails3)
        unstable = [f for f, _ in new if (f['module'], f['fn'].split('/')[0]) not in keys3]
        if unstable and len(unstable) == len(new):
            print('MACHINERY: unstable proof (failed once, passed on re-run): %s' % [(f['module'], f['fn'], f['label']) for f in unstable]); sys.exit(2)
        new = [(f, k) for f, k in new if f not in unstable]
    # ---- obligations of this property
    obl = [o for o in lmap.values() if pid in o['tags'] and ('views::' + o['module']) in mods]   # only clauses of modules verified in this run
    fnres = fn_results(res['json'])
    if res2 is not None and res2['json'] is not None: fnres.update(fn_results(res2['json']))      # functions re-solved with the larger limit
    lemma_fns = [k for k, v in fnres.items() if '::props::' in k and '_vac::' not in k]
    n_obl = len(obl) + len(lemma_fns)
    if pid == 'C15':
        n_obl += len([k for k in fnres if '::views::' in k])
    failed_keys = set((f['module'], f['fn'], f['label']) for f in deciding)
    n_failed = len(failed_keys)
    if n_obl == 0:
        print('MACHINERY: zero obligations for %s' % pid); sys.exit(2)
    # ---- known input-level findings: replay their witnesses on the real crate
    skip = sorted(set(k['skip'] for k in known if k.get('skip')))
    for k in known:
        if k.get('witness'):
            rc, line = probe_replay(os.path.join(ROOT, k['witness']))
            if rc == 1:
                print('KNOWN-FINDING: property=%s view=%s %s [%s]' % (pid, k.get('view'), k.get('what', ''), line[:160]))
            else:
                print('NOTE: listed finding no longer reproduces (property=%s view=%s): %s' % (pid, k.get('view'), line[:160]))
    for f, ks in known_hits:
        print('KNOWN-FINDING: property=%s view=%s obligation=%s:%s  %s' % (pid, f['module'], f['fn'], f['label'], ks[0].get('what', '')))
    # ---- bounded search on the real crate: counterexample finder for failed obligations, stand-in where the proof is unavailable
    budget = 4000 if tier == 'quick' else 400000
    focus = sorted(set(f['module'] for f, _ in new)) or None
    probe = probe_search(pid, seed, budget, None, skip)
    if focus and not probe.get('found'):
        p2 = probe_search(pid, seed + 1, max(budget * 5, 150000), focus, skip)      # only reached when an obligation already failed: worth the seconds
        if p2.get('found'): probe = p2
    elif prereq and not probe.get('found'):
        # only obligations of OTHER properties failed: the proof of this property is unavailable on this tree and the bounded search alone
        # decides - focus it on the views whose obligations failed, with a larger budget (never reached on a tree that verifies)
        p2 = probe_search(pid, seed + 1, max(budget * 5, 100000), sorted(set(f['module'] for f in prereq)), skip)
        if p2.get('found'): probe = p2
    # translation validation of the extraction (vf/mkexec.py): the generated text, compiled by Verus with an executable scalar model, must agree
    # bit for bit with the real crate on the replayed cases; bounded, never counted as proof; a disagreement is a defect of the extraction (exit 2)
    tv = None
    if not os.environ.get('VERIF_NO_TV'):
        import mkexec
        binp, _ = probe_build()
        if binp:
            try: tv = mkexec.validate(gen, rep['modules'], binp, os.path.join(gdir, 'exec'), seed, per_kind=(12 if tier == 'quick' else 60))
            except Exception as e: tv = dict(ok=False, error='translation validation did not run: %s' % str(e)[:300])
    kani = None
    if pid == 'C14':
        kani = kani_run(KANI_QUICK if tier == 'quick' else KANI_THOROUGH)
    kani_std = None
    if pid in KANI_STD_PROPS and tier == 'thorough':
        kani_std = kani_run(KANI_STD)
        kani_std['bound'] = 'sequences of at most 3 elements in every ring-buffer layout (head rotated by 0..2), element values: all finite f64'
        if not kani_std.get('summary') or kani_std['summary']['failed'] > 0:
            print('MACHINERY: a std contract assumed by the Verus shim fails its bounded Kani check (a wrong assumption, not a verdict on the property):\n' + json.dumps(kani_std)[-1200:]); sys.exit(2)
    violation = None
    # a function that has no contract of its own (e.g. a helper extracted by a refactoring) makes its callers unverifiable: failures in
    # such a module are "needs contract work" (undecided) unless the bounded search replays a real failing input
    unc = set(x.split('::')[0] for x in rep.get('uncontracted_fns', []))
    needs_contract = [f for f, _ in new if f['module'] in unc]
    if needs_contract and not probe.get('found'):
        new = [(f, k) for f, k in new if f['module'] not in unc]
    if new:
        violation = dict(kind='failed-obligation', failed=[f for f, _ in new])
    elif probe.get('found'):
        violation = dict(kind='failing-input-found-by-bounded-search', failed=[])
    elif kani and kani.get('summary') and kani['summary']['failed'] > 0:
        violation = dict(kind='kani-bit-level-proof-failed', failed=[dict(module='kani', fn=h, label='bit-exact', line=0, msg='CBMC found a counterexample', text='; '.join(kani['failed_checks'])) for h, r in kani['per_harness'].items() if r != 'SUCCESSFUL'] or
                         [dict(module='kani', fn='?', label='bit-exact', line=0, msg='CBMC found a counterexample', text='; '.join(kani['failed_checks']))])
    if kani and not kani.get('summary') and not violation:
        print('MACHINERY: the Kani harnesses did not run to completion (not a verdict):\n' + kani.get('tail', '')[-800:]); sys.exit(2)
    st = self_test(pid) if (tier == 'thorough' and not violation) else None
    wall = time.time() - t0
    ev = dict(property_id=pid, tier=tier, seed=seed, level='proof', wall_s=round(wall, 2), violations=1 if violation else 0,
              coverage=dict(
                  obligations=n_obl, discharged=n_obl - n_failed,
                  checker_cmd=res['cmd'].replace(gen, 'gen/%s/all.rs' % pid),
                  trusted_base=trusted_base(gen_lines),
                  backend='Verus 0.2026.09.13 / Z3 (bundled with Verus)', solver_ms=sum(v['ms'] for v in fnres.values()),
                  functions_under_contract=sorted(set('%s::%s' % (o['module'], o['fn'].split('/')[0]) for o in obl)),
                  views_not_under_contract=rep['uncontracted'], views_without_clone=rep.get('not_clonable', []), views_with_handwritten_clone=rep.get('clone_unverified', []),
                  functions_verified=len([v for v in fnres.values() if v['ok']]), functions_failed=[k for k, v in fnres.items() if not v['ok'] and '::canary::' not in k and '_vac::' not in k],
                  property_lemmas=lemma_fns,
                  source_hashes={'%s::%s' % (f['module'], f['fn']): f['sha256'] for f in rep['functions'] if ('views::' + f['module']) in mods},
                  extraction_rules_applied=rep['rules_applied'],
                  canaries=dict(expected_to_fail=n_canaries, failed=len(can_errs)),
                  prerequisite_failures=[dict(module=f['module'], fn=f['fn'], label=f['label'], tags=f['tags']) for f in prereq],
                  undecided_resource_out=[dict(module=f['module'], fn=f['fn']) for f in undecided],
                  known_findings=[k['raw'][:300] for k in known],
                  bounded=probe, extraction_translation_validation=tv, axioms_numeric_sanity=dict(axioms=len(axs['axioms']), grid_points=axs['grid_points'], literal_axioms=axs['literal_axioms'], ok=True), kani_loop_free_bit_level_proofs=kani, assumed_std_contracts_bounded_check=kani_std, seeded_self_test=st,
                  extraction=dict(functions=len(rep['functions']), verbatim=len([f for f in rep['functions'] if not f['rules']]),
                                  rewritten={'%s::%s' % (f['module'], f['fn']): f['rules'] for f in rep['functions'] if f['rules']}),
                  slowest_functions=sorted([(v['ms'], k) for k, v in fnres.items()], reverse=True)[:8],
                  samples=[dict(obligation='%s::%s [%s]' % (o['module'], o['fn'], o['label']), clause=o['text'][:300]) for o in obl[:6]]
                          + [dict(lemma=k) for k in lemma_fns[:4]]),
              assumptions=ASSUMPTIONS)
    json.dump(ev, open(os.path.join(os.environ.get('VERIF_EVIDENCE_DIR', os.path.join(ROOT, 'evidence')), pid + '.json'), 'w'), indent=1)
    if violation:
        rp = os.path.join(os.environ.get('VERIF_REPLAY_DIR', os.path.join(ROOT, 'replay')), '%s-%d.json' % (pid, int(time.time())))
        found = probe.get('found')
        json.dump(dict(property=pid, violation=violation['kind'], case=probe.get('case') if found else None,
                       failed_obligations=[dict(module=f['module'], fn=f['fn'], label=f['label'], line=f['line'], msg=f['msg'], clause=f.get('text')) for f in violation['failed']],
                       verus_output=res['stderr'][-20000:], probe=probe),
                  open(rp, 'w'), indent=1)
        for f in violation['failed']:
            print('FAILED-OBLIGATION: %s::%s [%s] %s :: %s' % (f['module'], f['fn'], f['label'], f['msg'], (f.get('text') or '')[:160]))
        if found: print('FAILING-INPUT: %s' % json.dumps(probe.get('case'))[:600])
        print('VIOLATION property=%s replay=%s%s' % (pid, rp, '' if found else ' no-failing-input-found'))
        sys.exit(1)
    if tv is not None and not tv.get('ok'):
        print('MACHINERY: translation validation of the extraction failed - the extracted text does not behave like the real crate (a defect of the extraction rules, not a verdict on %s): %s' % (pid, json.dumps(tv)[:1500])); sys.exit(2)
    if pid == 'C17' and rep.get('clone_unverified') and not violation:
        print('MACHINERY: %s implement Clone by hand: the clone clause of C17 is outside the supported subset (M4 covers #[derive(Clone)] only) and the bounded search found no failing input: undecided' % sorted(rep['clone_unverified'])); sys.exit(2)
    if needs_contract and not violation:
        print('MACHINERY: %s have no contract (new helper function?); the obligations %s of %s could not be discharged and the bounded search found no failing input: undecided, needs contract work' % (
            sorted(rep.get('uncontracted_fns', [])), sorted(set('%s::%s[%s]' % (f['module'], f['fn'], f['label']) for f in needs_contract)), pid)); sys.exit(2)
    if undecided and not prereq:
        print('MACHINERY: solver resource limit exceeded in %s and the bounded search found no failing input (undecided, not a verdict)' % sorted(set((f['module'], f['fn']) for f in undecided)))
        sys.exit(2)
    print('OK property=%s obligations=%d discharged=%d functions=%d bounded-search-cases=%s wall=%.1fs%s' % (pid, n_obl, n_obl - n_failed, len([k for k in fnres if '::canary::' not in k and '_vac::' not in k]), probe.get('checked'), wall,
          (' (proof unavailable for %d prerequisite obligation(s) of other properties; bounded search found nothing)' % len(prereq)) if prereq else ''))
    sys.exit(0)

ASSUMPTIONS = [
    'scalar model M-real: f64/f32 arithmetic is treated as exact real arithmetic; rounding, overflow to inf, signed zero and NaN propagation are not modelled',
    'partial operations (/ sqrt ln) carry preconditions instead of producing NaN/inf',
    'library functions exp cos sin ln log2 tanh sqrt powi are uninterpreted with the textbook axioms listed in trusted_base',
    'std VecDeque/Vec/Option behave as specified by vstd and by the assume_specification items listed in trusted_base',
    'extraction rules M1-M6, R1-R15, F1, L1, P1 are semantics preserving (bodies otherwise byte-identical; see extraction_rules_applied and source_hashes); checked on every run, within a bound, by translation validation: the generated text compiled by Verus with an executable scalar model agrees bit for bit with the real crate on the replayed cases (extraction_translation_validation)',
    'the std contracts assumed by the shim (min_by/max_by, last().copied(), clone of scalar buffers, VecDeque front/back/get/is_empty/index, iteration order) are checked by Kani on the real std for sequences of at most 3 elements (thorough tier of C02/C15/C17; assumed_std_contracts_bounded_check), otherwise assumed',
    'monotone usize counters do not reach 2^64 (part of `accepts`)',
    'termination of the verified functions is not claimed beyond the decreases clauses Verus requires',
]

def trusted_base(gen_lines):
    tb = []
    txt = '\n'.join(gen_lines)
    for m in re.finditer(r'(pub (?:broadcast )?axiom fn \w+|pub assume_specification[^\[]*\[[^\]]*\]|#\[verifier::external_body\]\s*(?:pub )?fn \w+|pub uninterp spec fn \w+)', txt):
        tb.append(re.sub(r'\s+', ' ', m.group(1)))
    return sorted(set(tb))

if __name__ == '__main__':
    main()
