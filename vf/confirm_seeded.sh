#!/bin/sh
# usage: confirm_seeded.sh <deliver-dir> <name>   - confirms a candidate seeded change in a scratch worktree and stores it under /verif/seeded/<name>
# checks: patch applies; crate builds; existing tests pass with the patch; demo fails with the patch and passes without it
set -u
D=$1; NAME=$2; WT=${CONFIRM_WT:-/tmp/confirm_wt}
[ -d $WT ] || git -C /repo worktree add -q --detach $WT HEAD
cd $WT && git checkout -q --detach $(git -C /repo rev-parse HEAD) && git checkout -- . && git clean -fdq -e target
mkdir -p tests && cp $D/demo.rs tests/demo.rs
export CARGO_NET_OFFLINE=true
clean_demo=$(cargo test --offline --test demo 2>&1 | grep -E "^test result" | head -1)
git apply $D/patch.diff || { echo "PATCH DOES NOT APPLY"; exit 1; }
suite=$(cargo test --offline --lib 2>&1 | grep -E "^test result" | head -1)
mut_demo=$(cargo test --offline --test demo 2>&1 | grep -E "^test result" | head -1)
git checkout -- . ; rm -rf tests
echo "clean demo : $clean_demo"; echo "suite+mut  : $suite"; echo "demo+mut   : $mut_demo"
case "$clean_demo" in *"0 failed"*) ;; *) echo "REJECT: demo fails on clean tree"; exit 1;; esac
case "$suite" in *"43 passed; 0 failed"*) ;; *) echo "REJECT: suite fails with mutant"; exit 1;; esac
case "$mut_demo" in *"0 failed"*) echo "REJECT: demo passes with mutant"; exit 1;; esac
mkdir -p /verif/seeded/$NAME && cp $D/patch.diff $D/demo.rs /verif/seeded/$NAME/ && cp $D/notes.md /verif/seeded/$NAME/notes.md 2>/dev/null
echo "CONFIRMED $NAME"
