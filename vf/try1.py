#!/usr/bin/env python3
"""run ONE check on ONE seeded change / refactoring in a scratch copy of /repo and print the driver's full output
usage: try1.py <seeded|refactors>/<name> <Cxx> [--keep] [extra driver args]"""
import os, sys, subprocess, shutil
ROOT = os.path.dirname(os.path.dirname(os.path.abspath(__file__)))
d = os.path.join(ROOT, sys.argv[1]); pid = sys.argv[2]; keep = '--keep' in sys.argv
extra = [a for a in sys.argv[3:] if a != '--keep']
w = os.path.join('/tmp/try1', os.path.basename(d) + '-' + pid)
shutil.rmtree(w, ignore_errors=True); os.makedirs(w)
def sh(c, env=None): return subprocess.run(c, shell=True, capture_output=True, text=True, env=env)
sh('cp -r /repo/src /repo/Cargo.toml /repo/Cargo.lock /repo/README.md %s/ && mkdir -p %s/benches && cp -r /repo/benches %s/' % (w, w, w))
if os.path.exists(os.path.join(d, 'patch.diff')):
    r = sh('cd %s && git init -q . && git apply %s/patch.diff' % (w, d))
    if r.returncode != 0: print('patch fails', r.stderr); sys.exit(3)
env = dict(os.environ, VERIF_REPO=w, VERIF_GEN=os.path.join(w, 'gen'), VERIF_EVIDENCE_DIR=os.path.join(w, 'ev'), VERIF_REPLAY_DIR=os.path.join(w, 'replay'),
           VERIF_PROBE_TARGET=os.path.join(w, 'ptarget'), VERIF_THREADS='8')
for x in ('gen', 'ev', 'replay'): os.makedirs(os.path.join(w, x), exist_ok=True)
shutil.copytree(os.path.join(ROOT, 'probe'), os.path.join(w, 'probe'), ignore=shutil.ignore_patterns('target'))
env['VERIF_PROBE_DIR'] = os.path.join(w, 'probe')
shutil.copytree(os.path.join(ROOT, 'kani'), os.path.join(w, 'kani'), ignore=shutil.ignore_patterns('target'))
env['VERIF_KANI_DIR'] = os.path.join(w, 'kani')
c = sh('cd %s && python3 vf/driver.py %s %s' % (ROOT, pid, ' '.join(extra)), env=env)
print(c.stdout[-6000:]); print(c.stderr[-2000:]); print('rc =', c.returncode)
if not keep: shutil.rmtree(w, ignore_errors=True)
else: print('kept', w)
