//! Bounded search / replay on the REAL crate (path dependency on the repository under test).
//! This is the counterexample finder and the bounded stand-in of the framework; it proves nothing.
//!   probe search <PID> [--seed S] [--budget B] [--views a,b]   -> last stdout line is a JSON object {"found":..}
//!   probe replay <case.json>                                    -> exit 1 if the case still fails
//! Inputs are small dyadic rationals so that f64 arithmetic is (nearly) exact; comparisons use a 1e-9 tolerance.
#![allow(dead_code)]
use sliding_features::pure_functions::*;
use sliding_features::rolling::*;
use sliding_features::sliding_windows::*;
use sliding_features::View;
use std::alloc::{GlobalAlloc, Layout, System};
use std::panic::{catch_unwind, AssertUnwindSafe};
use std::sync::atomic::{AtomicIsize, Ordering};

// ---------- counting allocator (C18)
struct Counting;
static LIVE: AtomicIsize = AtomicIsize::new(0);
unsafe impl GlobalAlloc for Counting {
    unsafe fn alloc(&self, l: Layout) -> *mut u8 { LIVE.fetch_add(l.size() as isize, Ordering::Relaxed); System.alloc(l) }
    unsafe fn dealloc(&self, p: *mut u8, l: Layout) { LIVE.fetch_sub(l.size() as isize, Ordering::Relaxed); System.dealloc(p, l) }
    unsafe fn realloc(&self, p: *mut u8, l: Layout, n: usize) -> *mut u8 { LIVE.fetch_add(n as isize - l.size() as isize, Ordering::Relaxed); System.realloc(p, l, n) }
}
#[global_allocator]
static A: Counting = Counting;

// ---------- rng
struct Rng(u64);
impl Rng {
    fn next(&mut self) -> u64 { self.0 ^= self.0 << 13; self.0 ^= self.0 >> 7; self.0 ^= self.0 << 17; self.0 }
    fn below(&mut self, n: u64) -> u64 { self.next() % n }
    fn pick<T: Copy>(&mut self, xs: &[T]) -> T { xs[self.below(xs.len() as u64) as usize] }
}

// ---------- type-erased views so that every wrapper can be put over every inner view
trait DynView { fn upd(&mut self, v: f64); fn lst(&self) -> Option<f64>; fn bclone(&self) -> Option<Box<dyn DynView>>; }
struct Cl<V>(V);
struct NoCl<V>(V);
impl<V: View<f64> + Clone + 'static> DynView for Cl<V> {
    fn upd(&mut self, v: f64) { self.0.update(v) } fn lst(&self) -> Option<f64> { self.0.last() }
    fn bclone(&self) -> Option<Box<dyn DynView>> { Some(Box::new(Cl(self.0.clone()))) }
}
impl<V: View<f64> + 'static> DynView for NoCl<V> {
    fn upd(&mut self, v: f64) { self.0.update(v) } fn lst(&self) -> Option<f64> { self.0.last() }
    fn bclone(&self) -> Option<Box<dyn DynView>> { None }
}
struct Dyn(Box<dyn DynView>);
impl View<f64> for Dyn { fn update(&mut self, v: f64) { self.0.upd(v) } fn last(&self) -> Option<f64> { self.0.lst() } }
impl Clone for Dyn { fn clone(&self) -> Self { Dyn(self.0.bclone().expect("clonable")) } }
fn d<V: View<f64> + Clone + 'static>(v: V) -> Dyn { Dyn(Box::new(Cl(v))) }
fn echo() -> Dyn { d(Echo::new()) }

const UNARY: &[&str] = &["sma", "ema", "alma", "cumulative", "min", "max", "welford_online", "hl_normalizer", "roc", "binary_entropy",
    "vst", "vsct", "center_of_gravity", "cti", "net", "rsi", "my_rsi", "laguerre_filter", "laguerre_rsi", "super_smoother",
    "roofing_filter", "cyber_cycle", "trend_flex", "re_flex", "eft", "pfe", "tanh", "gte", "lte", "drawdown", "ln_return", "welford_rolling"];
const BINARY: &[&str] = &["add", "subtract", "multiply", "divide"];
fn min_n(kind: &str) -> usize { match kind { "cyber_cycle" | "pfe" => 3, "eft" | "eft_ss" => 2, _ => 1 } }
fn positive_only(kind: &str) -> bool { matches!(kind, "drawdown" | "ln_return") }
fn gamma_of(n: usize) -> f64 { [0.0, 0.25, 0.5, 0.75, 0.875, 0.125][n % 6] }

fn make(kind: &str, inner: Dyn, n: usize) -> Dyn {
    let n = n.max(min_n(kind));
    match kind {
        "echo" => inner,
        "sma" => d(Sma::new(inner, n)), "ema" => d(Ema::new(inner, n)), "alma" => d(Alma::new(inner, n)),
        "cumulative" => d(Cumulative::new(inner, n)), "min" => d(Min::new(inner, n)), "max" => d(Max::new(inner, n)),
        "welford_online" => d(WelfordOnline::new(inner, n)), "hl_normalizer" => d(HLNormalizer::new(inner, n)),
        "roc" => d(Roc::new(inner, n)), "binary_entropy" => d(BinaryEntropy::new(inner, n)),
        "vst" => d(Vst::new(inner, n)), "vsct" => d(Vsct::new(inner, n)),
        "center_of_gravity" => d(CenterOfGravity::new(inner, n)), "cti" => d(CorrelationTrendIndicator::new(inner, n)),
        "net" => d(NoiseEliminationTechnology::new(inner, n)), "rsi" => d(Rsi::new(inner, n)), "my_rsi" => d(MyRSI::new(inner, n)),
        "laguerre_filter" => d(LaguerreFilter::new(inner, gamma_of(n))), "laguerre_rsi" => d(LaguerreRSI::new(inner, n)),
        "super_smoother" => d(SuperSmoother::new(inner, n)), "roofing_filter" => d(RoofingFilter::new(inner, n, n.max(1))),
        "cyber_cycle" => d(CyberCycle::new(inner, n)), "trend_flex" => d(TrendFlex::new(inner, n)), "re_flex" => d(ReFlex::new(inner, n)),
        "eft" => d(EhlersFisherTransform::new(inner, Sma::new(Echo::new(), 2), n)),
        "eft_ss" => d(EhlersFisherTransform::new(inner, SuperSmoother::new(Echo::new(), 3), n)),
        "pfe" => d(PolarizedFractalEfficiency::new(inner, Sma::new(Echo::new(), 2), n)),
        "tanh" => d(Tanh::new(inner)), "gte" => d(GTE::new(inner, 0.5)), "lte" => d(LTE::new(inner, 0.5)),
        "drawdown" => d(Drawdown::new(inner)), "ln_return" => d(LnReturn::new(inner)), "welford_rolling" => d(WelfordRolling::new(inner)),
        _ => panic!("unknown view kind {kind}"),
    }
}
fn make2(kind: &str, a: Dyn, b: Dyn) -> Dyn {
    match kind {
        "add" => Dyn(Box::new(NoCl(Add::new(a, b)))), "subtract" => d(Subtract::new(a, b)),
        "multiply" => d(Multiply::new(a, b)), "divide" => d(Divide::new(a, b)),
        _ => panic!("unknown binary kind {kind}"),
    }
}

// ---------- streams
fn gen_stream(r: &mut Rng, len: usize, positive: bool) -> Vec<f64> {
    let style = r.below(10);
    // -0.0 is a finite in-domain input: sites that classify a value once by its sign bit and once by `>= 0` disagree on it
    let vals: &[f64] = &[-3.0, -2.0, -1.5, -1.0, -0.5, 0.0, -0.0, 0.5, 1.0, 1.0, 2.0, 2.5, 3.0, 4.0];
    let mut out = Vec::with_capacity(len);
    let mut cur = r.pick(vals);
    for i in 0..len {
        let x = match style {
            0 => r.pick(vals),                                             // iid small values with ties and zeros
            1 => { cur += r.pick(&[-1.0, -0.5, 0.0, 0.5, 1.0]); cur }      // random walk with flat steps
            2 => cur,                                                      // constant
            3 => { cur += 0.5; cur }                                       // strictly increasing
            4 => { cur -= 0.5; cur }                                       // strictly decreasing
            5 => if i == (len / 3) { 64.0 } else { r.pick(&[0.0, 1.0, -1.0]) },   // one spike
            6 => if i < len / 2 { r.pick(vals) } else { 1.0 },             // volatile then flat
            8 => if (i / 3) % 2 == 0 { 0.0 } else { 1.0 },                   // square wave (step to the window extreme and hold)
            9 => if i < 2 { i as f64 } else if i < len / 2 { 0.95 } else { 1.0 },
            _ => r.pick(&[0.0, -0.0, 1.0, -1.0, 2.0]),                     // many zeros (of both signs)
        };
        out.push(if positive { x.abs() + 0.5 } else { x });
    }
    out
}
fn close(a: f64, b: f64) -> bool { (a - b).abs() <= 1e-7 * (1.0 + a.abs().max(b.abs())) }
fn oclose(a: Option<f64>, b: Option<f64>) -> bool { match (a, b) { (Some(x), Some(y)) => close(x, y), (None, None) => true, _ => false } }
fn near_flat(w: &[f64]) -> bool { let m = w.iter().fold(0.0f64, |a, x| a.max(x.abs())); fmax(w) - fmin(w) <= 1e-6 * (1.0 + m) }
fn flat(w: &[f64]) -> bool { w.windows(2).all(|p| p[0] == p[1]) }
/// views whose exact answer on a flat window hinges on an accumulated quantity being exactly 0; in f64 the values that left the
/// window leave rounding residue there (that is property C16, which this framework does not decide), so such steps are skipped
fn residue_sensitive(kind: &str) -> bool { matches!(kind, "rsi" | "my_rsi" | "vst" | "vsct" | "welford_online" | "welford_rolling") }
fn no_skip() -> bool { std::env::var("PROBE_NO_SKIP").is_ok() }
fn degenerate_step(kind: &str, h: &[f64], t: usize, n: usize) -> bool {
    if no_skip() { return false; }
    // change-based views look one value further back (N changes need N + 1 values): their window is flat only if those N + 1 values are
    let k = n.max(min_n(kind)) + if matches!(kind, "rsi" | "my_rsi") { 1 } else { 0 };
    residue_sensitive(kind) && near_flat(win(&h[..=t], k)) && !flat(&h[..=t])
}
fn win(h: &[f64], n: usize) -> &[f64] { &h[h.len().saturating_sub(n)..] }
fn fmin(w: &[f64]) -> f64 { w.iter().cloned().fold(f64::INFINITY, f64::min) }
fn fmax(w: &[f64]) -> f64 { w.iter().cloned().fold(f64::NEG_INFINITY, f64::max) }
fn mean(w: &[f64]) -> f64 { w.iter().sum::<f64>() / w.len() as f64 }

#[derive(Clone, Debug)]
struct Case { prop: String, view: String, inner: String, n: usize, stream: Vec<f64>, stream2: Vec<f64>, a: f64, b: f64, detail: String }
impl Case {
    fn json(&self) -> String {
        let s = |v: &Vec<f64>| v.iter().map(|x| format!("{x:?}")).collect::<Vec<_>>().join(",");
        format!("{{\"prop\":\"{}\",\"view\":\"{}\",\"inner\":\"{}\",\"n\":{},\"a\":{:?},\"b\":{:?},\"stream\":[{}],\"stream2\":[{}],\"detail\":\"{}\"}}",
            self.prop, self.view, self.inner, self.n, self.a, self.b, s(&self.stream), s(&self.stream2), self.detail.replace('"', "'"))
    }
}
fn run_outputs(v: &mut Dyn, xs: &[f64]) -> Vec<Option<f64>> { xs.iter().map(|&x| { v.update(x); v.last() }).collect() }

// ---------- reference definitions (written from the property statements)
fn ref_window_stat(kind: &str, h: &[f64], n: usize) -> Option<Option<f64>> {
    // Some(expected last()) for the definitional views of C02/C05/C06; None = no reference
    let w = win(h, n);
    let t = h.len();
    Some(match kind {
        "sma" => if t < n { None } else { Some(mean(w)) },
        "cumulative" => Some(w.iter().sum()),
        "min" => Some(fmin(w)), "max" => Some(fmax(w)),
        "welford_online" => if t + 1 < n { None } else if w.len() < 2 || flat(w) { Some(0.0) } else {
            let m = mean(w); Some((w.iter().map(|x| (x - m) * (x - m)).sum::<f64>() / (w.len() as f64 - 1.0)).max(0.0).sqrt()) },
        "hl_normalizer" => { let (lo, hi) = (fmin(w), fmax(w)); if hi == lo { Some(0.0) } else { Some(2.0 * (h[t - 1] - lo) / (hi - lo) - 1.0) } },
        "binary_entropy" => { let p = w.iter().filter(|x| **x >= 0.0).count() as f64 / w.len() as f64;
            let f = |p: f64| if p <= 0.0 || p >= 1.0 { 0.0 } else { p * p.log2() }; Some(-(f(p) + f(1.0 - p))) },
        "vst" | "vsct" => if t + 1 < n { None } else {
            let m = mean(w); let sd = if w.len() < 2 || flat(w) { 0.0 } else { (w.iter().map(|x| (x - m) * (x - m)).sum::<f64>() / (w.len() as f64 - 1.0)).max(0.0).sqrt() };
            if kind == "vst" { if sd == 0.0 { Some(h[t - 1]) } else { Some(h[t - 1] / sd) } } else if sd == 0.0 { Some(0.0) } else { Some((h[t - 1] - m) / sd) } },
        "center_of_gravity" => { let nn = w.len(); let den: f64 = w.iter().sum(); let sa: f64 = w.iter().map(|x| x.abs()).sum();
            if den != 0.0 && den.abs() < 1e-9 * sa { return Some(Some(f64::NAN)); }        // ill-conditioned (the exact sum may be 0): step skipped (NaN marks "no reference")
            if den == 0.0 { Some(0.0) } else {
            let num: f64 = (1..=nn).map(|k| k as f64 * w[nn - k]).sum(); Some((nn as f64 + 1.0) / 2.0 - num / den) } },
        "cti" => if t < n { return None } else {
            let nn = n as f64; let xs: Vec<f64> = (0..n).map(|i| i as f64).collect();
            let (sx, sy) = (w.iter().sum::<f64>(), xs.iter().sum::<f64>());
            let sxx: f64 = w.iter().map(|v| v * v).sum(); let syy: f64 = xs.iter().map(|v| v * v).sum();
            let sxy: f64 = w.iter().zip(&xs).map(|(a, b)| a * b).sum();
            let (vx, vy) = (nn * sxx - sx * sx, nn * syy - sy * sy);
            if vx > 0.0 && vy > 0.0 { Some(((nn * sxy - sx * sy) / (vx * vy).sqrt()).clamp(-1.0, 1.0)) } else { Some(0.0) } },   // a correlation lies in [-1, 1]
        "net" => if w.len() < 2 { return None } else {
            let nn = w.len(); let mut s = 0.0;
            for j in 0..nn { for i in 0..j { s += if w[j] > w[i] { 1.0 } else if w[j] < w[i] { -1.0 } else { 0.0 } } }
            Some(s / (nn as f64 * (nn as f64 - 1.0) / 2.0)) },
        "rsi" | "my_rsi" => if t < n { None } else {
            let (mut g, mut l) = (0.0, 0.0);
            for i in (t - w.len())..t { let dd = if i == 0 { 0.0 } else { h[i] - h[i - 1] }; if dd > 0.0 { g += dd } else { l += -dd } }
            if kind == "rsi" { if l == 0.0 { Some(100.0) } else { Some(100.0 * g / (g + l)) } }
            else if g + l == 0.0 { return None } else { Some((g - l) / (g + l)) } },
        _ => return None,
    })
}
fn ref_roc(h: &[f64], n: usize) -> Vec<Option<f64>> {
    let mut out = vec![]; let mut prev: Option<f64> = None;
    for t in 0..h.len() {
        let base = if t >= n { h[t - n] } else { h[0] };
        if base != 0.0 { prev = Some(100.0 * (h[t] - base) / base); }
        out.push(prev);
    }
    out
}

// Ehlers-style references (C11): batch re-evaluation from the complete history
fn ss_coeffs(n: usize) -> (f64, f64, f64) {
    let a1 = (-1.414 * std::f64::consts::PI / n as f64).exp(); let b1 = 2.0 * a1 * (4.4422 / n as f64).cos();
    let c3 = -a1 * a1; (1.0 - b1 - c3, b1, c3)
}
fn ref_super_smoother(h: &[f64], n: usize) -> Vec<Option<f64>> {
    let (c1, c2, c3) = ss_coeffs(n); let (mut f1, mut f2, mut x1) = (0.0, 0.0, 0.0); let mut out = vec![];
    for (i, &x) in h.iter().enumerate() { let f = c1 * (x + x1) / 2.0 + c2 * f1 + c3 * f2; f2 = f1; f1 = f; x1 = x; out.push(if i + 1 >= n { Some(f) } else { None }); }
    out
}
fn ref_roofing(h: &[f64], n: usize, m: usize) -> Vec<Option<f64>> {
    let th = 4.4422 / n as f64; let al = (th.cos() + th.sin() - 1.0) / th.cos();
    let (mut x1, mut x2, mut h1, mut h2) = (0.0, 0.0, 0.0, 0.0); let mut hps = vec![]; let mut out = vec![];
    for (i, &x) in h.iter().enumerate() {
        let hp = (1.0 - al / 2.0).powi(2) * (x - 2.0 * x1 + x2) + 2.0 * (1.0 - al) * h1 - (1.0 - al).powi(2) * h2;
        h2 = h1; h1 = hp; x2 = x1; x1 = x;
        if i > n { hps.push(hp); }
        out.push(ref_super_smoother(&hps, m).last().cloned().flatten());
    }
    out
}
fn ref_laguerre_filter(h: &[f64], g: f64) -> Vec<Option<f64>> {
    let mut out = vec![]; let mut l = [0.0; 4];
    for (i, &x) in h.iter().enumerate() {
        if i == 0 { l = [x; 4]; } else {
            let n0 = (1.0 - g) * x + g * l[0]; let n1 = -g * n0 + l[0] + g * l[1]; let n2 = -g * n1 + l[1] + g * l[2]; let n3 = -g * n2 + l[2] + g * l[3];
            l = [n0, n1, n2, n3];
        }
        out.push(Some((l[0] + 2.0 * l[1] + 2.0 * l[2] + l[3]) / 6.0));
    }
    out
}
fn ref_laguerre_rsi(h: &[f64], n: usize) -> Vec<Option<f64>> {
    let g = 2.0 / (n as f64 + 1.0); let mut out = vec![]; let mut l = [0.0; 4]; let mut val = None;
    for (i, &x) in h.iter().enumerate() {
        if i >= 2 {
            let n0 = (1.0 - g) * x + g * l[0]; let n1 = -g * n0 + l[0] + g * l[1]; let n2 = -g * n1 + l[1] + g * l[2]; let n3 = -g * n2 + l[2] + g * l[3];
            l = [n0, n1, n2, n3];
            let (mut cu, mut cd) = (0.0, 0.0);
            for k in 0..3 { if l[k] >= l[k + 1] { cu += l[k] - l[k + 1] } else { cd += l[k + 1] - l[k] } }
            if cu + cd != 0.0 { val = Some(cu / (cu + cd)); }
        }
        out.push(val);
    }
    out
}
fn flex_coeffs(n: usize) -> (f64, f64, f64) {
    let a1 = (-8.88442402435 / n as f64).exp(); let b1 = 2.0 * a1 * (4.44221201218 / n as f64).cos(); let c3 = -a1 * a1; (1.0 - b1 - c3, b1, c3)
}
fn ref_flex(h: &[f64], n: usize, reflex: bool) -> Vec<Option<f64>> {
    let (c1, b1, c3) = flex_coeffs(n); let mut q: Vec<f64> = vec![]; let mut x1 = 0.0; let mut ms = 0.0; let mut out = vec![]; let mut o = None;
    for (i, &x) in h.iter().enumerate() {
        if i == 0 { x1 = x; }
        if q.len() >= n { q.remove(0); }
        let l = q.len();
        let mut f = c1 * (x + x1) / 2.0; if l >= 1 { f += b1 * q[l - 1]; } if l >= 2 { f += c3 * q[l - 2]; }
        x1 = x; q.push(f);
        let len = q.len();
        let slope = (q[0] - f) / n as f64;
        let mut dsum = 0.0;
        for j in 0..len { dsum += if reflex { (f + j as f64 * slope) - q[len - 1 - j] } else { f - q[len - 1 - j] }; }
        let dd = dsum / n as f64; ms = 0.04 * dd * dd + 0.96 * ms;
        if ms > 0.0 { o = Some(dd / ms.sqrt()); } else if !reflex { o = Some(0.0); }
        out.push(o);
    }
    out
}
fn ref_cyber_cycle(h: &[f64], n: usize) -> Vec<Option<f64>> {
    let al = 2.0 / (n as f64 + 1.0); let mut vals: Vec<f64> = vec![]; let mut outs: Vec<f64> = vec![]; let mut res = vec![];
    for &x in h {
        if vals.len() >= n { vals.remove(0); outs.remove(0); }
        vals.push(x);
        if vals.len() < n { outs.push(0.0); } else {
            let sm = |i: usize| if i < 3 { 0.0 } else { (vals[i] + 2.0 * vals[i - 1] + 2.0 * vals[i - 2] + vals[i - 3]) / 6.0 };
            let last = n - 1;
            let cc = (1.0 - 0.5 * al).powi(2) * (sm(last) - 2.0 * sm(last - 1) + sm(last - 2)) + 2.0 * (1.0 - al) * outs[last - 1] - (1.0 - al).powi(2) * outs[last - 2];
            outs.push(cc);
        }
        res.push(outs.last().cloned());
    }
    res
}
fn ref_sma_stream(h: &[f64], m: usize) -> Option<f64> { if h.len() < m { None } else { Some(mean(win(h, m))) } }
fn ref_eft(h: &[f64], n: usize) -> Vec<Option<f64>> {
    // moving average = Sma(2) as built by make("eft")
    let mut outs: Vec<f64> = vec![]; let mut norm: Vec<f64> = vec![]; let mut res = vec![];
    for t in 0..h.len() {
        let w = win(&h[..=t], n); let (lo, hi) = (fmin(w), fmax(w));
        if outs.len() >= n { outs.remove(0); }
        if hi == lo { outs.push(0.0); } else {
            norm.push(2.0 * ((h[t] - lo) / (hi - lo) - 0.5));
            if let Some(s) = ref_sma_stream(&norm, 2) {
                let s = s.clamp(-0.99, 0.99);
                if outs.is_empty() { outs.push(0.0); } else { let f = 0.5 * ((1.0 + s) / (1.0 - s)).ln() + 0.5 * outs[outs.len() - 1]; outs.push(f); }
            }
        }
        res.push(outs.last().cloned());
    }
    res
}
fn ref_pfe(h: &[f64], n: usize) -> Vec<Option<f64>> {
    let mut ps: Vec<f64> = vec![]; let mut res = vec![]; let mut o = None;
    for t in 0..h.len() {
        if t + 1 >= n {
            let w = win(&h[..=t], n);
            let mut s = 0.0; for i in 0..n - 2 { let dd = w[n - 1 - i] - w[n - 2 - i]; s += (dd * dd + 1.0).sqrt(); }
            let mut p = ((h[t] - w[0]).powi(2) + (n as f64).powi(2)).sqrt() / s;
            if h[t] < w[n - 2] { p = -p; }
            ps.push(p); o = ref_sma_stream(&ps, 2);
        }
        res.push(o);
    }
    res
}
fn ref_ema(h: &[f64], n: usize) -> Vec<Option<f64>> {
    let w = 2.0 / (n as f64 + 1.0); let mut e = 0.0; let mut out = vec![];
    for (i, &x) in h.iter().enumerate() { e = if i == 0 { x } else { w * x + (1.0 - w) * e }; out.push(if i + 1 >= n { Some(e) } else { None }); }
    out
}
fn ref_alma(h: &[f64], n: usize) -> Vec<Option<f64>> {
    // positive Gaussian weights (centre 0.85(N+1), width N/6) attached at the insertion position, normalised by their sum
    let (m, s) = (0.85 * (n as f64 + 1.0), n as f64 / 6.0); let mut wv: Vec<(f64, f64)> = vec![]; let mut out = vec![];
    for &x in h {
        if wv.len() >= n { wv.remove(0); }
        let k = wv.len() as f64; let g = (-(k - m) * (k - m) / (2.0 * s * s)).exp(); wv.push((g, x));
        out.push(Some(wv.iter().map(|(g, x)| g * x).sum::<f64>() / wv.iter().map(|(g, _)| g).sum::<f64>()));
    }
    out
}
fn reference(kind: &str, h: &[f64], n: usize) -> Option<Vec<Option<f64>>> {
    let n = n.max(min_n(kind));
    Some(match kind {
        "roc" => ref_roc(h, n), "super_smoother" => ref_super_smoother(h, n), "roofing_filter" => ref_roofing(h, n, n.max(1)),
        "laguerre_filter" => ref_laguerre_filter(h, gamma_of(n)), "laguerre_rsi" => ref_laguerre_rsi(h, n),
        "trend_flex" => ref_flex(h, n, false), "re_flex" => ref_flex(h, n, true), "cyber_cycle" => ref_cyber_cycle(h, n),
        "eft" => ref_eft(h, n), "pfe" => ref_pfe(h, n), "ema" => ref_ema(h, n), "alma" => ref_alma(h, n),
        "echo" => h.iter().map(|x| Some(*x)).collect(),
        "tanh" => h.iter().map(|x| Some(x.tanh())).collect(), "gte" => h.iter().map(|x| Some(x.max(0.5))).collect(), "lte" => h.iter().map(|x| Some(x.min(0.5))).collect(),
        "ln_return" => (0..h.len()).map(|t| if t == 0 { None } else { Some((h[t] / h[t - 1]).ln()) }).collect(),
        "drawdown" => { let mut pk = f64::MIN; let mut dd: f64 = 0.0; h.iter().map(|&x| { if x > pk { pk = x; } dd = dd.max((pk - x) / pk); Some(dd) }).collect() },
        "welford_rolling" => (0..h.len()).map(|t| { let w = &h[..=t]; let m = mean(w); Some((w.iter().map(|x| (x - m) * (x - m)).sum::<f64>() / w.len() as f64 * if w.len() > 1 { 1.0 } else { 0.0 }).sqrt()) }).collect(),
        "my_rsi" => { let mut prev = 0.0; (0..h.len()).map(|t| { if let Some(Some(v)) = ref_window_stat(kind, &h[..=t], n) { prev = v; }
                        if t + 1 < n { None } else { Some(prev) } }).collect() },
        "net" => { let mut prev = None; (0..h.len()).map(|t| { if let Some(v) = ref_window_stat(kind, &h[..=t], n) { prev = v; } prev }).collect() },
        "cti" => (0..h.len()).map(|t| ref_window_stat(kind, &h[..=t], n).unwrap_or(None)).collect::<Vec<_>>().into_iter().enumerate().map(|(t, v)| if t + 1 < n { None } else { v }).collect(),
        _ => { if ref_window_stat(kind, &h[..1.min(h.len())], n).is_none() { return None; }
               (0..h.len()).map(|t| ref_window_stat(kind, &h[..=t], n).unwrap()).collect() }
    })
}

// ---------- property oracles: each returns Some(detail) on a violation
fn check_functional(kind: &str, n: usize, h: &[f64]) -> Option<String> {
    let exp = reference(kind, h, n)?;
    let mut v = make(kind, echo(), n);
    let got = run_outputs(&mut v, h);
    for t in 0..h.len() {
        if kind == "cti" && t + 1 < n.max(min_n(kind)) { continue; }   // C06 speaks about full windows only
        if degenerate_step(kind, h, t, n) { continue; }
        if let Some(e) = exp[t] { if e.is_nan() { continue; } }
        if !oclose(got[t], exp[t]) { return Some(format!("step {t}: got {:?} expected {:?}", got[t], exp[t])); }
    }
    None
}
fn check_functional_over(kind: &str, inner: &str, n: usize, h: &[f64]) -> Option<String> {
    if inner == "echo" { return check_functional(kind, n, h); }
    let mut a = make(inner, echo(), n);
    let mut ys = vec![]; let mut at = vec![];
    for (t, &x) in h.iter().enumerate() { a.update(x); if let Some(y) = a.last() { if !y.is_finite() { return None; } ys.push(y); at.push(t); } }
    if ys.is_empty() { return None; }
    let exp = reference(kind, &ys, n)?;
    let mut v = make(kind, make(inner, echo(), n), n);
    let got = run_outputs(&mut v, h);
    for (i, &t) in at.iter().enumerate() {
        if kind == "cti" && i + 1 < n.max(min_n(kind)) { continue; }
        if degenerate_step(kind, &ys, i, n) { continue; }
        if let Some(e) = exp[i] { if e.is_nan() { continue; } }
        if !oclose(got[t], exp[i]) { return Some(format!("step {t} (delivered value {i}): got {:?} expected {:?} over the inner view's outputs", got[t], exp[i])); }
    }
    None
}
fn check_chain(outer: &str, inner: &str, n: usize, h: &[f64]) -> Option<String> {
    let mut chain = make(outer, make(inner, echo(), n), n);
    let mut a = make(inner, echo(), n); let mut b = make(outer, echo(), n);
    for (t, &x) in h.iter().enumerate() {
        chain.update(x); a.update(x);
        if positive_only(outer) { if let Some(y) = a.last() { if !(y > 0.0) { return None; } } }     // outside the stated domain
        if let Some(y) = a.last() { b.update(y); }
        let (c, e) = (chain.last(), b.last());
        if c.map(f64::to_bits) != e.map(f64::to_bits) { return Some(format!("step {t}: chain {c:?} vs decomposition {e:?}")); }
    }
    None
}
fn check_chain2(op: &str, ka: &str, kb: &str, n: usize, h: &[f64]) -> Option<String> {
    let mut chain = make2(op, make(ka, echo(), n), make(kb, echo(), n));
    let mut a = make(ka, echo(), n); let mut b = make(kb, echo(), n);
    for (t, &x) in h.iter().enumerate() {
        chain.update(x); a.update(x); b.update(x);
        let e = match (a.last(), b.last()) { (Some(p), Some(q)) => if op == "divide" && q == 0.0 { return None } else { Some(match op { "add" => p + q, "subtract" => p - q, "multiply" => p * q, _ => p / q }) }, _ => None };
        let c = chain.last();
        if c.map(f64::to_bits) != e.map(f64::to_bits) { return Some(format!("step {t}: combinator {c:?} vs children {e:?}")); }
    }
    None
}
fn check_range(kind: &str, n: usize, h: &[f64]) -> Option<String> {
    let n = n.max(min_n(kind)).max(2);
    let mut v = make(kind, echo(), n); let mut mn = make("min", echo(), n); let mut mx = make("max", echo(), n);
    let mut prev_dd = 0.0;
    for (t, &x) in h.iter().enumerate() {
        v.update(x); mn.update(x); mx.update(x);
        let Some(o) = v.last() else { continue };
        if kind == "vsct" && degenerate_step(kind, h, t, n) { continue; }      // known finding C07/vsct (f64 residue on a flat window)
        let e = 1e-9;
        let (lo, hi): (f64, f64) = match kind {
            "rsi" => (0.0, 100.0), "my_rsi" | "hl_normalizer" | "cti" | "net" | "tanh" | "pfe" => (-1.0, 1.0),
            "laguerre_rsi" | "binary_entropy" => (0.0, 1.0), "eft" | "eft_ss" => (-(199.0f64).ln(), (199.0f64).ln()),
            "welford_online" | "welford_rolling" => (0.0, f64::INFINITY),
            "vsct" => { let b = (n as f64 - 1.0) / (n as f64).sqrt(); (-b, b) },
            "sma" | "alma" => (mn.last().unwrap(), mx.last().unwrap()),
            "gte" => (0.5, f64::INFINITY), "lte" => (f64::NEG_INFINITY, 0.5),
            "drawdown" => { if o + e < prev_dd { return Some(format!("step {t}: drawdown decreased {prev_dd} -> {o}")); } prev_dd = o; (0.0, 1.0 - 1e-12) },
            "center_of_gravity" => { let b = (n as f64 - 1.0) / 2.0; (-b, b) },
            _ => return None,
        };
        if kind == "sma" && t + 1 < n { continue; }
        if !(o >= lo - e * (1.0 + lo.abs()) && o <= hi + e * (1.0 + hi.abs())) { return Some(format!("step {t}: {o} outside [{lo}, {hi}]")); }
        if !(mn.last().unwrap() <= x && x <= mx.last().unwrap()) { return Some(format!("step {t}: newest value outside [Min, Max]")); }
    }
    None
}
fn warmup(kind: &str, n: usize) -> Option<(usize, usize)> {
    // (first step (1-based) at which a value may appear, step from which it must appear)
    let n = n.max(min_n(kind));
    Some(match kind {
        "sma" | "ema" | "super_smoother" | "rsi" | "my_rsi" => (n, n), "roofing_filter" => (2 * n + 1, 2 * n + 1), "ln_return" => (2, 2),
        "welford_online" | "vst" | "vsct" => (n.saturating_sub(1), n),
        "echo" | "min" | "max" | "cumulative" | "alma" | "center_of_gravity" | "binary_entropy" | "gte" | "lte" | "tanh" | "laguerre_filter" => (1, 1),
        _ => return None,
    })
}
fn check_ready(kind: &str, inner: &str, n: usize, h: &[f64]) -> Option<String> {
    let mut v = make(kind, make(inner, echo(), n), n);
    let mut ready = false; let mut delivered = 0usize; let mut probe_inner = make(inner, echo(), n); let mut prev = v.last();
    for (t, &x) in h.iter().enumerate() {
        v.update(x); probe_inner.update(x);
        let o = v.last();
        let inner_ready = probe_inner.last().is_some();
        if inner_ready { delivered += 1; } else if o.map(f64::to_bits) != prev.map(f64::to_bits) && inner != "echo" { return Some(format!("step {t}: answer changed although the inner view delivered nothing")); }
        if let Some(val) = o { if !val.is_finite() { return Some(format!("step {t}: non-finite output {val}")); } }
        if ready && o.is_none() { return Some(format!("step {t}: readiness reverted")); }
        if o.is_some() { ready = true; }
        if let Some((first, must)) = warmup(kind, n) {
            if o.is_some() && delivered < first { return Some(format!("step {t}: reported after {delivered} delivered values, documented warm-up is {first}")); }
            if o.is_none() && delivered >= must { return Some(format!("step {t}: still silent after {delivered} delivered values, documented warm-up is {must}")); }
        }
        prev = o;
    }
    None
}
/// readiness of the binary combinators: a value exactly when both children have one, never reverting, finite
fn check_ready2(op: &str, ka: &str, kb: &str, n: usize, h: &[f64]) -> Option<String> {
    let mut chain = make2(op, make(ka, echo(), n), make(kb, echo(), n));
    let mut a = make(ka, echo(), n); let mut b = make(kb, echo(), n);
    let mut ready = false;
    for (t, &x) in h.iter().enumerate() {
        chain.update(x); a.update(x); b.update(x);
        if op == "divide" && b.last() == Some(0.0) { return None; }                      // outside the stated domain
        let both = a.last().is_some() && b.last().is_some();
        let o = chain.last();
        if o.is_some() != both { return Some(format!("step {t}: combinator reports {o:?} while its children report {:?} and {:?}", a.last(), b.last())); }
        if ready && o.is_none() { return Some(format!("step {t}: readiness reverted")); }
        if let Some(v) = o { if !v.is_finite() { return None; } ready = true; }
    }
    None
}
fn check_finite_memory(kind: &str, n: usize, pre1: &[f64], pre2: &[f64], suffix: &[f64]) -> Option<String> {
    let n = n.max(min_n(kind));
    let k = match kind { "rsi" | "my_rsi" | "roc" => n + 1, "alma" => 2 * n, "pfe" => n + 2 - 1, _ => n };
    if suffix.len() < k { return None; }
    let mut v1 = make(kind, echo(), n); let mut v2 = make(kind, echo(), n);
    for &x in pre1 { v1.update(x); } for &x in pre2 { v2.update(x); }
    let w = win(suffix, n);
    for (t, &x) in suffix.iter().enumerate() {
        v1.update(x); v2.update(x);
        if t + 1 >= k {
            // explicit exceptions of the statement: a view holding its previous output because its ratio is 0/0
            if kind == "my_rsi" && { let s = &suffix[t + 1 - k..=t]; s.windows(2).all(|p| p[0] == p[1]) } { continue; }
            if kind == "roc" && suffix[t + 1 - k] == 0.0 { continue; }
            if residue_sensitive(kind) && flat(&suffix[t + 1 - k..=t]) { continue; }
            let _ = w;
            let same = if residue_sensitive(kind) { match (v1.last(), v2.last()) { (Some(p), Some(q)) => (p - q).abs() <= 1e-4 * (1.0 + p.abs().max(q.abs())), (None, None) => true, _ => false } } else { oclose(v1.last(), v2.last()) };
            if !same { return Some(format!("suffix step {t}: {:?} vs {:?} after different prefixes", v1.last(), v2.last())); }
        }
    }
    None
}
fn check_average(kind: &str, n: usize, h: &[f64], a: f64, b: f64) -> Option<String> {
    let mut v = make(kind, echo(), n); let mut va = make(kind, echo(), n); let mut vup = make(kind, echo(), n); let mut vc = make(kind, echo(), n);
    let (mut lo, mut hi) = (f64::INFINITY, f64::NEG_INFINITY);
    for (t, &x) in h.iter().enumerate() {
        v.update(x); va.update(a * x + b); vup.update(x + if t % 3 == 1 { 1.0 } else { 0.0 }); vc.update(h[0]);
        lo = lo.min(x); hi = hi.max(x);
        let (wl, wh) = if kind == "ema" { (lo, hi) } else { let w = win(&h[..=t], n); (fmin(w), fmax(w)) };
        if let Some(o) = v.last() {
            if o < wl - 1e-9 * (1.0 + wl.abs()) || o > wh + 1e-9 * (1.0 + wh.abs()) { return Some(format!("step {t}: {o} outside the averaged interval [{wl}, {wh}]")); }
            // tiny units (a = 2^-60, b = 0): scaling by a power of two commutes exactly with every IEEE operation of an average, so the
            // comparison is exact there (an absolute tolerance would hide an absolute threshold in the code)
            if a.abs() < 1e-6 { if let Some(oa) = va.last() { if oa != a * o { return Some(format!("step {t}: not scale-equivariant in tiny units: view(a x) = {oa:e}, a view(x) = {:e} (a = {a:e})", a * o)); } } }
            else if let Some(oa) = va.last() { if !close(oa, a * o + b) { return Some(format!("step {t}: not affine-equivariant: view(a x + b) = {oa}, a view(x) + b = {}", a * o + b)); } }
            if let Some(ou) = vup.last() { if ou < o - 1e-9 * (1.0 + o.abs()) { return Some(format!("step {t}: raising inputs lowered the output {o} -> {ou}")); } }
        }
        if let Some(oc) = vc.last() { if !close(oc, h[0]) { return Some(format!("step {t}: constant input {} mapped to {oc}", h[0])); } }
    }
    None
}
fn check_linear(kind: &str, n: usize, x: &[f64], y: &[f64], a: f64, b: f64) -> Option<String> {
    let mut vx = make(kind, echo(), n); let mut vy = make(kind, echo(), n); let mut vz = make(kind, echo(), n);
    for t in 0..x.len().min(y.len()) {
        vx.update(x[t]); vy.update(y[t]); vz.update(a * x[t] + b * y[t]);
        match (vx.last(), vy.last(), vz.last()) {
            (Some(p), Some(q), Some(r)) => if (r - (a * p + b * q)).abs() > 1e-8 * (1.0 + r.abs() + p.abs() + q.abs()) { return Some(format!("step {t}: view(a x + b y) = {r} but a view(x) + b view(y) = {}", a * p + b * q)); },
            (None, None, None) => {}, other => return Some(format!("step {t}: readiness differs between streams {other:?}")),
        }
    }
    // the low-pass members reproduce a constant from their first output - also when chained on a (linear, constant-preserving) window view
    // that is silent at first (the seeding of the recursion must use the first DELIVERED value)
    if matches!(kind, "sma" | "ema" | "alma" | "laguerre_filter") && !x.is_empty() {
        let c = if x[0] == 0.0 { 1.5 } else { x[0] };
        for inner in ["echo", "sma"] {
            let mut v = make(kind, make(inner, echo(), n), n);
            for t in 0..(4 * n + 8) { v.update(c); if let Some(o) = v.last() { if (o - c).abs() > 1e-9 * (1.0 + c.abs()) { return Some(format!("step {t}: constant stream {c} over {inner} is reported as {o}")); } } }
        }
    }
    None
}
fn check_invariance(kind: &str, n: usize, h: &[f64], a: f64, b: f64) -> Option<String> {
    // mode: 0 = affine-invariant, 1 = scale-invariant, 2 = scales by a
    let mode = match kind { "hl_normalizer" | "vsct" | "cti" | "net" | "eft" => 0,
        "rsi" | "my_rsi" | "laguerre_rsi" | "vst" | "roc" | "center_of_gravity" | "binary_entropy" | "trend_flex" | "re_flex" | "ln_return" | "drawdown" => 1,
        "min" | "max" | "sma" | "ema" | "alma" | "cumulative" | "welford_online" | "super_smoother" | "laguerre_filter" | "roofing_filter" | "cyber_cycle" => 2, _ => return None };
    let pos = positive_only(kind);
    let hh: Vec<f64> = if pos { h.iter().map(|x| x.abs() + 0.5).collect() } else { h.to_vec() };
    let bb = if mode == 0 { b } else { 0.0 };
    let mut v = make(kind, echo(), n); let mut w = make(kind, echo(), n);
    for (t, &x) in hh.iter().enumerate() {
        v.update(x); w.update(a * x + bb);
        let (p, q) = (v.last(), w.last());
        if degenerate_step(kind, &hh, t, n) || flat(win(&hh[..=t], n.max(min_n(kind)))) { continue; }
        let exp = if mode == 2 { p.map(|p| a * p) } else { p };
        let tol = |u: f64, z: f64| (u - z).abs() <= 1e-7 * (1.0 + u.abs().max(z.abs()));
        let ok = match (q, exp) { (Some(u), Some(z)) => tol(u, z), (None, None) => true, _ => false };
        if !ok { return Some(format!("step {t}: view({a} x + {bb}) = {q:?}, expected {exp:?}")); }
    }
    None
}
fn check_negation(kind: &str, n: usize, h: &[f64]) -> Option<String> {
    let mut v = make(kind, echo(), n); let mut w = make(kind, echo(), n); let mut mx = make("max", echo(), n);
    for (t, &x) in h.iter().enumerate() {
        v.update(x); w.update(-x); mx.update(x);
        let wdw = win(&h[..=t], n.max(min_n(kind)) + 1);
        if wdw.windows(2).all(|p| p[0] == p[1]) { continue; }      // degenerate (flat) window: excluded by the statement
        if degenerate_step(kind, h, t, n) { continue; }
        let (p, q) = (v.last(), w.last());
        let exp = match kind { "hl_normalizer" | "vsct" | "vst" | "my_rsi" | "cti" | "net" | "trend_flex" | "re_flex" => p.map(|p| -p), "rsi" => p.map(|p| 100.0 - p),
            "min" => mx.last().map(|m| -m), _ => return None };
        if kind == "my_rsi" || kind == "rsi" { let ww = win(&h[..=t], n + 1); if ww.windows(2).all(|p| p[0] == p[1]) { continue; } }
        let ok = match (q, exp) { (Some(u), Some(z)) => (u - z).abs() <= 1e-7 * (1.0 + u.abs()), (None, None) => true, _ => false };
        if !ok { return Some(format!("step {t}: view(-x) = {q:?}, expected {exp:?}")); }
    }
    None
}
fn check_stability(kind: &str, n: usize, h: &[f64], h2: &[f64]) -> Option<String> {
    let n = n.max(3);
    let mut v = make(kind, echo(), n); let mut w = make(kind, echo(), n);
    // a head of huge values (search(): x 2^40) takes proportionally longer to fade (the normaliser of TrendFlex/ReFlex decays by 0.96 per step)
    let huge = h.iter().chain(h2.iter()).any(|x| x.abs() > 1e6);
    let long = if huge { 8000 } else { 40 * n + 400 };
    // bounded input, long run: the output must stay bounded by a modest constant (inputs are within [-4, 4])
    if !huge { for t in 0..long { let x = h[t % h.len()]; v.update(x); if let Some(o) = v.last() { if !o.is_finite() || o.abs() > 1e3 { return Some(format!("step {t}: output {o} for inputs bounded by 4")); } } } }
    // common tail: outputs must converge
    let mut v = make(kind, echo(), n);
    for &x in h { v.update(x); } for &x in h2 { w.update(x); }
    let mut first_gap = None;
    for t in 0..long { let x = if (t / 7) % 3 == 1 { 1.5 } else { [1.0, -1.0, 0.5, 2.0, 0.0, 0.0, 2.0][t % 7] }; v.update(x); w.update(x);
        if let (Some(p), Some(q)) = (v.last(), w.last()) { let g = (p - q).abs(); if first_gap.is_none() { first_gap = Some(g); }
            if t == long - 1 && g > 1e-6 + 1e-3 * first_gap.unwrap() { return Some(format!("outputs of two streams with a common tail of {long} values still differ by {g}")); } } }
    // a constant common tail that repeats the last value of the first stream (ties with the state are the adversarial case); only for the
    // linear filters, whose outputs on a constant tail are well conditioned
    if matches!(kind, "ema" | "laguerre_filter" | "super_smoother" | "roofing_filter" | "cyber_cycle") && !h.is_empty() {
        let c = *h.last().unwrap();
        let mut v = make(kind, echo(), n); let mut w = make(kind, echo(), n);
        for &x in h { v.update(x); } for &x in h2 { w.update(x); }
        let mut first_gap = None;
        for t in 0..long { v.update(c); w.update(c);
            if let (Some(p), Some(q)) = (v.last(), w.last()) { let g = (p - q).abs(); if first_gap.is_none() { first_gap = Some(g); }
                if t == long - 1 && g > 1e-6 + 1e-3 * first_gap.unwrap() { return Some(format!("outputs of two streams with a common constant tail of {long} values ({c}) still differ by {g}")); } } }
    }
    None
}
fn check_determinism(kind: &str, inner: &str, n: usize, h: &[f64]) -> Option<String> {
    let mut v = make(kind, make(inner, echo(), n), n); let mut w = make(kind, make(inner, echo(), n), n);
    // u1, u2: twins whose last() is called only now and then (an observed and a rarely observed instance must agree: last() changes nothing)
    let mut u1 = make(kind, make(inner, echo(), n), n); let mut u2 = make(kind, make(inner, echo(), n), n);
    let cut = h.len() / 2; let mut cl: Option<Dyn> = None; let mut orig_after = vec![];
    for (t, &x) in h.iter().enumerate() {
        v.update(x); w.update(x); u1.update(x); u2.update(x);
        let a = v.last(); for _ in 0..3 { if v.last().map(f64::to_bits) != a.map(f64::to_bits) { return Some(format!("step {t}: repeated last() differs")); } }
        if a.map(f64::to_bits) != w.last().map(f64::to_bits) { return Some(format!("step {t}: two identical instances disagree")); }
        let hsh = (t as u64 + 1).wrapping_mul(0x9E3779B97F4A7C15) >> 61;
        if hsh % 3 == 0 && u1.last().map(f64::to_bits) != a.map(f64::to_bits) { return Some(format!("step {t}: an instance whose last() was called at every step and one that was polled rarely disagree")); }
        if t % 2 == 1 && u2.last().map(f64::to_bits) != a.map(f64::to_bits) { return Some(format!("step {t}: an instance whose last() was called at every step and one polled at every other step disagree")); }
        if t == cut { cl = Some(v.clone()); }
        if t > cut { orig_after.push(a); }
    }
    if let Some(mut c) = cl {
        // feed the clone a divergent stream first on ANOTHER clone, then check the first clone continues like the original
        let mut other = c.clone(); for _ in 0..5 { other.update(7.0); }
        for (i, &x) in h[cut + 1..].iter().enumerate() { c.update(x); if c.last().map(f64::to_bits) != orig_after[i].map(f64::to_bits) { return Some(format!("clone diverged from the original at step {} after the cut", i)); } }
    }
    None
}
fn check_memory(kind: &str, n: usize) -> Option<String> {
    let n = n.max(min_n(kind));
    // three stream families: generic positive values over a chained Sma; and (outside the positive-only views) streams over Echo with
    // exact zeros, ties and long constant stretches - early-return paths (zero base, flat window) must not skip the trimming of a buffer
    let fams: &[(&str, &[f64])] = if positive_only(kind) { &[("sma", &[1.0, 2.0, 0.5, 3.0, 1.5])] }
        else { &[("sma", &[1.0, 2.0, 0.5, 3.0, 1.5]), ("echo", &[0.0, 1.0, 0.0, -2.0, 1.0, 0.0, 0.5]), ("echo", &[1.5, 1.5, 1.5, 1.5, 1.5, 1.5, 0.0])] };
    for (inner, vals) in fams {
        let mut v = make(kind, make(inner, echo(), n), n);
        let mut r = Rng(0x9E3779B97F4A7C15 ^ n as u64);
        for _ in 0..(6 * n + 50) { v.update(r.pick(vals)); }
        let base = LIVE.load(Ordering::Relaxed);
        for _ in 0..20000 { v.update(r.pick(vals)); }
        let end = LIVE.load(Ordering::Relaxed);
        if end - base > 4096 + 64 * n as isize { return Some(format!("heap grew by {} bytes over 20000 updates after warm-up (window {n}, values {vals:?} over {inner})", end - base)); }
    }
    None
}

struct Search { rng: Rng, budget: usize, views: Vec<String> }
impl Search {
    fn want(&self, k: &str) -> bool { self.views.is_empty() || self.views.iter().any(|v| v == k || alias(v) == k || alias(k) == v) }
}
fn alias(module: &str) -> &str { match module { "eft_ss" => "ehlers_fisher_transform", "correlation_trend_indicator" => "cti", "noise_elimination_technology" => "net", "variance_stabilizing_transformation" => "vst",
    "ehlers_fisher_transform" => "eft", "polarized_fractal_efficiency" => "pfe", m => m } }

fn eval(c: &Case) -> Option<String> {
    let r = catch_unwind(AssertUnwindSafe(|| eval_inner(c)));
    match r { Ok(x) => x, Err(e) => { let msg = e.downcast_ref::<String>().cloned().or_else(|| e.downcast_ref::<&str>().map(|s| s.to_string())).unwrap_or_default();
        // C09 promises FINITE output on bounded input: the crate's own `debug_assert!(.. is_finite(), "value must be finite")` firing inside a
        // recursive view is a non-finite output and counts for C09; every other panic is the subject of C15/C08 only
        if c.prop == "C15" || c.prop == "C08" || (c.prop == "C09" && msg.contains("must be finite")) { Some(format!("panic: {msg}")) } else { None } } }
}
/// the hand-written `Default` impls are one more constructor: a default-constructed view must behave like `new(Echo::new())`
fn check_default_ctor(kind: &str, h: &[f64]) -> Option<String> {
    let mut a: Dyn = match kind {
        "drawdown" => d(<Drawdown<f64, Echo<f64>> as Default>::default()),
        "ln_return" => d(<LnReturn<f64, Echo<f64>> as Default>::default()),
        "welford_rolling" => d(<WelfordRolling<f64, Echo<f64>> as Default>::default()),
        _ => return None,
    };
    let mut b = make(kind, echo(), 1);
    if a.last().map(f64::to_bits) != b.last().map(f64::to_bits) { return Some("default() and new(Echo::new()) report different values before any update".into()); }
    for (t, &x) in h.iter().enumerate() {
        a.update(x); b.update(x);
        if a.last().map(f64::to_bits) != b.last().map(f64::to_bits) { return Some(format!("step {t}: default() reports {:?}, new(Echo::new()) reports {:?}", a.last(), b.last())); }
    }
    None
}
fn eval_inner(c: &Case) -> Option<String> {
    let (k, n, h) = (c.view.as_str(), c.n, &c.stream[..]);
    match c.prop.as_str() {
        "C14" if !BINARY.contains(&k) => check_chain(k, &c.inner, n, h).or_else(|| check_functional_over(k, &c.inner, n, h)),
        "C01" | "C14" => if BINARY.contains(&k) { let (x, y) = c.inner.split_once('+').unwrap(); check_chain2(k, x, y, n, h) } else { check_chain(k, &c.inner, n, h) },
        "C13" => check_default_ctor(k, h).or_else(|| check_functional_over(k, &c.inner, n, h)),
        "C02" | "C05" | "C06" | "C11" => check_functional_over(k, &c.inner, n, h),
        "C03" => check_finite_memory(k, n, h, &c.stream2, &c.stream2[c.stream2.len().saturating_sub(c.b as usize)..]).or(None),
        "C04" => check_functional_over(k, &c.inner, n, h).or_else(|| check_average(k, n, h, c.a, c.b)),
        "C07" => check_range(k, n, h),
        "C08" => if BINARY.contains(&k) { let (x, y) = c.inner.split_once('+').unwrap(); check_ready2(k, x, y, n, h) } else { check_ready(k, &c.inner, n, h) },
        "C09" => check_stability(k, n, h, &c.stream2),
        "C10" => check_linear(k, n, h, &c.stream2, c.a, c.b),
        "C12" => check_invariance(k, n, h, c.a, c.b).or_else(|| check_negation(k, n, h)),
        "C15" => { let mut v = make(k, make(&c.inner, echo(), n), n); for &x in h { v.update(x); let _ = v.last(); let _ = v.last(); } None },
        "C17" => check_determinism(k, &c.inner, n, h),
        "C18" => check_memory(k, n),
        _ => None,
    }
}

fn kinds_for(prop: &str) -> Vec<&'static str> {
    match prop {
        "C02" => vec!["sma", "cumulative", "min", "max", "welford_online", "hl_normalizer", "roc", "binary_entropy", "vst", "vsct"],
        "C03" => vec!["sma", "cumulative", "min", "max", "roc", "welford_online", "vst", "vsct", "hl_normalizer", "binary_entropy", "center_of_gravity", "cti", "net", "rsi", "my_rsi", "alma", "pfe"],
        "C04" => vec!["sma", "ema", "alma"],
        "C05" => vec!["rsi", "my_rsi"], "C06" => vec!["cti", "net", "center_of_gravity"],
        "C07" => vec!["rsi", "my_rsi", "hl_normalizer", "cti", "net", "tanh", "pfe", "laguerre_rsi", "binary_entropy", "eft", "eft_ss", "welford_online", "welford_rolling", "vsct", "sma", "alma", "gte", "lte", "drawdown", "center_of_gravity"],
        "C09" => vec!["ema", "laguerre_filter", "super_smoother", "roofing_filter", "cyber_cycle", "trend_flex", "re_flex", "laguerre_rsi", "eft", "eft_ss"],
        "C10" => vec!["sma", "ema", "alma", "cumulative", "laguerre_filter", "super_smoother", "roofing_filter", "cyber_cycle"],
        "C11" => vec!["super_smoother", "roofing_filter", "laguerre_filter", "laguerre_rsi", "cyber_cycle", "trend_flex", "re_flex", "eft", "pfe"],
        "C12" => vec!["hl_normalizer", "vsct", "cti", "net", "eft", "rsi", "my_rsi", "laguerre_rsi", "vst", "roc", "center_of_gravity", "binary_entropy", "trend_flex", "re_flex", "ln_return", "drawdown",
                      "min", "max", "sma", "ema", "alma", "cumulative", "welford_online", "super_smoother", "laguerre_filter", "roofing_filter", "cyber_cycle"],
        "C13" => vec!["welford_rolling", "drawdown", "ln_return"],
        "C14" => vec!["add", "subtract", "multiply", "divide", "tanh", "gte", "lte", "echo"],
        _ => UNARY.to_vec(),
    }
}

fn search(prop: &str, s: &mut Search) -> (usize, Option<Case>) {
    let kinds: Vec<&str> = kinds_for(prop).into_iter().filter(|k| s.want(k)).collect();
    let kinds = if kinds.is_empty() { kinds_for(prop) } else { kinds };
    let mut checked = 0;
    let inners = ["echo", "sma", "ema", "max", "welford_online", "rsi", "roc", "super_smoother", "laguerre_filter", "cumulative", "ln_return"];
    while checked < s.budget {
        let k = s.rng.pick(&kinds);
        let n = 1 + s.rng.below(7) as usize;
        let n = n.max(min_n(k));
        let pos = positive_only(k) || prop == "C13" || (prop == "C07" && k == "center_of_gravity");
        let len = 1 + s.rng.below((3 * n + 8) as u64) as usize;
        let mut c = Case { prop: prop.into(), view: k.into(), inner: "echo".into(), n, stream: gen_stream(&mut s.rng, len, pos), stream2: vec![], a: 1.0, b: 0.0, detail: String::new() };
        match prop {
            "C01" | "C08" | "C15" | "C17" => {
                c.inner = s.rng.pick(&inners).into();
                if positive_only(k) { c.inner = s.rng.pick(&["echo", "sma", "max", "ema", "cumulative"]).into(); c.stream = gen_stream(&mut s.rng, len, true);
                    if c.inner != "echo" && prop == "C01" { for i in 1..c.stream.len() { if s.rng.below(5) == 0 { c.stream[i] = 0.0; } } } }
                if c.inner == "ln_return" { c.stream = gen_stream(&mut s.rng, len, true); if positive_only(k) { c.inner = "echo".into(); } }
                if (prop == "C01" && s.rng.below(5) == 0) || (prop == "C08" && s.rng.below(8) == 0) { let op = s.rng.pick(BINARY); c.view = op.into(); c.inner = format!("{}+{}", s.rng.pick(&inners[..8]), s.rng.pick(&inners[..8])); }
            }
            "C02" | "C04" | "C05" | "C06" | "C11" | "C13" => {
                if s.rng.below(3) == 0 && !positive_only(k) && prop != "C13" { c.inner = s.rng.pick(if residue_sensitive(k) { &["sma", "max", "gte", "cumulative", "min", "lte"][..] } else { &["sma", "tanh", "ema", "max", "gte", "cumulative"][..] }).into(); }
                // C13: WelfordRolling is not restricted to positive inputs and may sit on a view that is silent at first
                if prop == "C13" && k == "welford_rolling" && s.rng.below(3) == 0 { c.inner = s.rng.pick(&["sma", "max", "cumulative"]).into(); }
                // C06: the three indicators are ratios - tiny units (an exact power of two) must not change them (absolute thresholds)
                if prop == "C06" && c.inner == "echo" && s.rng.below(4) == 0 { for x in c.stream.iter_mut() { *x *= (2.0f64).powi(-40); } }
            },
            "C14" => if BINARY.contains(&k) { c.inner = format!("{}+{}", s.rng.pick(&inners[..8]), s.rng.pick(&inners[..8])); }
                     else if k != "echo" { c.inner = s.rng.pick(&["echo", "sma", "cumulative", "roc", "ema", "max"]).into(); },
            "C03" => { let kk = 2 * n + 3; let extra = s.rng.below(4) as usize; let suffix = gen_stream(&mut s.rng, kk + extra, false);
                let l2 = 1 + s.rng.below(12) as usize; let mut p2 = gen_stream(&mut s.rng, l2, false); if s.rng.below(2) == 0 { p2.push(if residue_sensitive(k) { 64.0 } else { 1024.0 }); }
                c.b = suffix.len() as f64; p2.extend(suffix.iter()); c.stream2 = p2; },
            "C12" => { c.a = s.rng.pick(&[0.5, 2.0, 4.0, 0.25, 9.094947017729282e-13, 8.673617379884035e-19, 1099511627776.0]); c.b = s.rng.pick(&[0.0, 1.0, -2.0, 8.0]);
                   if c.a < 1e-6 || c.a > 1e6 { c.b = 0.0; } },
            "C04x" => {},
            "C09" => { c.stream2 = gen_stream(&mut s.rng, len + 3, false); },
            "C10" => { c.stream2 = gen_stream(&mut s.rng, len, false); c.a = s.rng.pick(&[0.0, 1.0, -1.0, 2.0, 0.5]); c.b = s.rng.pick(&[0.0, 1.0, -2.0, 0.5]); },
            _ => {}
        }
        // C11: movement, a long exactly constant stretch (recursions settle bit-exactly after about 5N+3 equal values and guarded ratios become
        // 0/0), then movement again - bookkeeping skipped on the flat stretch shows only afterwards
        if prop == "C11" && c.inner == "echo" && s.rng.below(8) == 0 { let c0 = s.rng.pick(&[1.0, 2.5, -1.5]); let mut st: Vec<f64> = c.stream.iter().take(6).cloned().collect(); for _ in 0..130 { st.push(c0); } st.extend(gen_stream(&mut s.rng, 8, false)); c.stream = st; }
        // C08: readiness must not revert however long the input stays constant (recursions that converge bit-exactly make a guarded ratio 0/0
        // only after dozens of equal values)
        if prop == "C08" && s.rng.below(6) == 0 { let c0 = *c.stream.last().unwrap(); let c1 = s.rng.pick(&[c0, c0, 1.0, 0.0]); let c1 = if positive_only(k) || c.inner == "ln_return" { c1.abs() + 0.5 } else { c1 }; for _ in 0..140 { c.stream.push(c1); } }
        // C09: the normalised indicators must stay finite in tiny units as well (d_sum^2 underflows long before d_sum does)
        if (prop == "C09" || (prop == "C08" && c.inner == "echo")) && matches!(k, "trend_flex" | "re_flex") && s.rng.below(8) == 0 { let f = (2.0f64).powi(-600); for x in c.stream.iter_mut().chain(c.stream2.iter_mut()) { *x *= f; } }
        // views that recompute their answer from the window (or from a fading recursion) at every step keep no trace of a value that has left
        // it: a head of huge values (x 2^60) must leave no rounding residue behind - a running sum introduced as an optimisation does.  Only for
        // views whose code on the pinned tree has that structure (accumulating views drift legitimately: that is C16, not claimed)
        if ((prop == "C07" && matches!(k, "center_of_gravity" | "net" | "hl_normalizer" | "cti")) || (prop == "C09" && matches!(k, "trend_flex" | "re_flex")))
            && s.rng.below(5) == 0 { let m = (c.stream.len() / 3).max(1).min(c.stream.len()); let f = (2.0f64).powi(if prop == "C09" { 40 } else { 60 }); for x in c.stream[..m].iter_mut() { *x *= f; } }
        if prop == "C04" { c.a = s.rng.pick(&[0.5, 2.0, 4.0, 0.25, 8.673617379884035e-19]); c.b = s.rng.pick(&[0.0, 1.0, -2.0, 8.0]); if c.a < 1e-6 { c.b = 0.0; } }
        if prop == "C03" { let suf: Vec<f64> = c.stream2[c.stream2.len() - c.b as usize..].to_vec(); c.stream.extend(suf.iter()); let pre_len = c.stream.len() - suf.len(); let pre1 = c.stream[..pre_len].to_vec();
            let pre2 = c.stream2[..c.stream2.len() - suf.len()].to_vec();
            checked += 1;
            if let Some(dt) = catch_unwind(AssertUnwindSafe(|| check_finite_memory(k, n, &pre1, &pre2, &suf))).unwrap_or(None) { c.detail = dt; c.stream = pre1; c.stream2 = pre2.into_iter().chain(suf).collect(); return (checked, Some(c)); }
            continue; }
        checked += 1;
        if let Some(dt) = eval(&c) { c.detail = dt; return (checked, Some(c)); }
    }
    (checked, None)
}

fn parse_case(txt: &str) -> Option<Case> {
    // minimal extraction from the JSON written by Case::json (possibly nested inside a replay file)
    let norm: String = { let mut o = String::with_capacity(txt.len()); let mut prev = ' '; let mut in_str = false;
        for ch in txt.chars() { if ch == '"' && prev != '\\' { in_str = !in_str; } if !in_str && ch.is_whitespace() { continue; } o.push(ch); prev = ch; } o };
    let txt = norm.as_str();
    let i = txt.find("\"prop\":\"")?; let t = &txt[i..];
    let gs = |key: &str| -> Option<String> { let p = t.find(&format!("\"{key}\":\""))? + key.len() + 4; let e = t[p..].find('"')?; Some(t[p..p + e].to_string()) };
    let gn = |key: &str| -> Option<f64> { let p = t.find(&format!("\"{key}\":"))? + key.len() + 3; let e = t[p..].find(|ch: char| ch == ',' || ch == '}')?; t[p..p + e].trim().parse().ok() };
    let ga = |key: &str| -> Option<Vec<f64>> { let p = t.find(&format!("\"{key}\":["))? + key.len() + 4; let e = t[p..].find(']')?; Some(t[p..p + e].split(',').filter(|x| !x.trim().is_empty()).map(|x| x.trim().parse().unwrap()).collect()) };
    Some(Case { prop: gs("prop")?, view: gs("view")?, inner: gs("inner")?, n: gn("n")? as usize, a: gn("a")?, b: gn("b")?, stream: ga("stream")?, stream2: ga("stream2")?, detail: String::new() })
}
fn eval_case(c: &Case) -> Option<String> {
    if c.prop == "C03" { let suf_len = c.b as usize; let suf = c.stream2[c.stream2.len() - suf_len..].to_vec(); let pre2 = c.stream2[..c.stream2.len() - suf_len].to_vec();
        return check_finite_memory(&c.view, c.n, &c.stream, &pre2, &suf); }
    eval(c)
}

// ---------- trace: replay of the cases of vf/mkexec.py on the REAL crate (translation validation of the extraction); the constructor table
// mirrors KINDS/INNERS of vf/mkexec.py
fn trace_inner(inner: &str) -> Dyn { match inner { "echo" => echo(), "sma" => d(Sma::new(Echo::new(), 2)), "ema" => d(Ema::new(Echo::new(), 3)), _ => panic!("inner") } }
fn trace_make(kind: &str, inner: &str, n: usize) -> Dyn {
    let i = trace_inner(inner);
    let sma2 = || Sma::new(Echo::<f64>::new(), 2);
    match kind {
        "laguerre_filter" => d(LaguerreFilter::new(i, 0.5 + 0.05 * (n as f64))),
        "roofing_filter" => d(RoofingFilter::new(i, n, n)),
        "eft" => d(EhlersFisherTransform::new(i, sma2(), n)), "pfe" => d(PolarizedFractalEfficiency::new(i, sma2(), n)),
        "add" => Dyn(Box::new(NoCl(Add::new(i, sma2())))), "subtract" => d(Subtract::new(i, sma2())), "multiply" => d(Multiply::new(i, sma2())),
        "divide" => d(Divide::new(i, Constant::new(4.0))),
        "default_drawdown" => d(<Drawdown<f64, Echo<f64>> as Default>::default()), "default_ln_return" => d(<LnReturn<f64, Echo<f64>> as Default>::default()),
        "default_welford_rolling" => d(<WelfordRolling<f64, Echo<f64>> as Default>::default()),
        k => make(k, i, n),
    }
}
fn trace(path: &str) {
    let show = |o: Option<f64>| match o { Some(x) => format!("{:016x}", x.to_bits()), None => "-".to_string() };
    for line in std::fs::read_to_string(path).unwrap().lines() {
        let f: Vec<&str> = line.split_whitespace().collect();
        if f.len() < 4 { continue; }
        let (kind, inner, n, cut) = (f[0], f[1], f[2].parse::<usize>().unwrap(), f[3].parse::<usize>().unwrap());
        let xs: Vec<f64> = f[4..].iter().map(|h| f64::from_bits(u64::from_str_radix(h, 16).unwrap())).collect();
        let r = catch_unwind(AssertUnwindSafe(|| {
            let mut v = trace_make(kind, inner, n);
            let mut out = vec![show(v.last())];
            for (t, x) in xs.iter().enumerate() { v.update(*x); out.push(show(v.last())); if kind != "add" && t == cut { let c = v.clone(); v = c; } }
            out.join(" ") }));
        println!("{}", r.unwrap_or_else(|_| "PANIC".to_string()));
    }
}

fn main() {
    let args: Vec<String> = std::env::args().collect();
    std::panic::set_hook(Box::new(|_| {}));
    match args.get(1).map(|s| s.as_str()) {
        Some("trace") => trace(&args[2]),
        Some("search") => {
            let prop = args[2].clone();
            let get = |k: &str| args.iter().position(|a| a == k).and_then(|i| args.get(i + 1)).cloned();
            let seed: u64 = get("--seed").and_then(|s| s.parse().ok()).unwrap_or(0);
            let budget: usize = get("--budget").and_then(|s| s.parse().ok()).unwrap_or(20000);
            let views: Vec<String> = get("--views").map(|v| v.split(',').map(|s| s.to_string()).collect()).unwrap_or_default();
            let skip: Vec<String> = get("--skip").map(|v| v.split(',').map(|s| s.to_string()).collect()).unwrap_or_default();
            let mut s = Search { rng: Rng(0x2545F4914F6CDD1D ^ (seed.wrapping_mul(0x9E3779B97F4A7C15)) | 1), budget, views };
            let mut total = 0; let mut skipped: Vec<String> = vec![];
            loop {
                let (n, found) = search(&prop, &mut s); total += n;
                match found {
                    Some(c) if skip.iter().any(|k| *k == c.view) => { if !skipped.contains(&c.view) { skipped.push(c.view.clone()); } s.budget = s.budget.saturating_sub(n); if s.budget == 0 { break; } s.views = kinds_for(&prop).into_iter().filter(|k| !skip.iter().any(|x| x == k)).map(|k| k.to_string()).collect(); }
                    Some(c) => { println!("{{\"found\":true,\"checked\":{},\"skipped_known\":{:?},\"case\":{}}}", total, skipped, c.json()); return; }
                    None => break,
                }
            }
            println!("{{\"found\":false,\"checked\":{},\"skipped_known\":{:?}}}", total, skipped);
        }
        Some("replay") => {
            let txt = std::fs::read_to_string(&args[2]).expect("readable case file");
            let Some(c) = parse_case(&txt) else { println!("{{\"replayed\":false,\"note\":\"no concrete case in file\"}}"); std::process::exit(2) };
            match eval_case(&c) { Some(dt) => { println!("{{\"replayed\":true,\"fails\":true,\"detail\":\"{}\"}}", dt.replace('"', "'")); std::process::exit(1) }
                None => { println!("{{\"replayed\":true,\"fails\":false}}"); } }
        }
        _ => { eprintln!("usage: probe search <PID> [--seed S] [--budget B] [--views a,b] [--skip v] | probe replay <file>"); std::process::exit(2) }
    }
}
