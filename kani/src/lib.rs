//! Kani harnesses on the REAL crate (path dependency).  Loop-free, full f64 domain, with a universal oracle child: a harness-local
//! View whose successive outputs are arbitrary (chosen symbolically up front), so each proof covers every possible child view.
//! These are complete bit-level proofs of the pointwise/selection clauses of C14 (no unwinding bound is involved: there is no loop).
#![allow(dead_code)]
#[cfg(kani)]
mod proofs {
    use sliding_features::pure_functions::*;
    use sliding_features::View;

    #[derive(Clone)]
    struct Oracle { outs: [Option<f64>; 2], i: usize }
    impl Oracle { fn new(outs: [Option<f64>; 2]) -> Self { Oracle { outs, i: 0 } } }
    impl View<f64> for Oracle {
        fn update(&mut self, _v: f64) { if self.i < 2 { self.i += 1; } }
        fn last(&self) -> Option<f64> { if self.i == 0 { None } else { self.outs[self.i - 1] } }
    }
    fn fin() -> f64 { let x: f64 = kani::any(); kani::assume(x.is_finite()); x }
    fn opt() -> Option<f64> { if kani::any() { Some(fin()) } else { None } }
    fn bits(o: Option<f64>) -> Option<u64> { o.map(f64::to_bits) }

    #[kani::proof]
    fn echo_constant_bits() {
        let (x1, x2, c) = (fin(), fin(), fin());
        let mut e: Echo<f64> = Echo::new();
        assert!(e.last().is_none());
        e.update(x1); assert!(bits(e.last()) == Some(x1.to_bits()));
        e.update(x2); assert!(bits(e.last()) == Some(x2.to_bits()));      // latest input only
        let mut k = Constant::new(c);
        assert!(bits(k.last()) == Some(c.to_bits()));
        k.update(x1); assert!(bits(k.last()) == Some(c.to_bits()));
    }
    #[kani::proof]
    fn gte_bits() {
        let outs = [opt(), opt()]; let clip = fin();
        let mut g = GTE::new(Oracle::new(outs), clip);
        g.update(fin());
        let e1 = outs[0].map(|y| if y >= clip { y } else { clip });
        assert!(bits(g.last()) == bits(e1));
        g.update(fin());
        let e2 = match outs[1] { Some(y) => Some(if y >= clip { y } else { clip }), None => e1 };   // silent child: answer unchanged
        assert!(bits(g.last()) == bits(e2));
    }
    #[kani::proof]
    fn lte_bits() {
        let outs = [opt(), opt()]; let clip = fin();
        let mut g = LTE::new(Oracle::new(outs), clip);
        g.update(fin());
        let e1 = outs[0].map(|y| if y <= clip { y } else { clip });
        assert!(bits(g.last()) == bits(e1));
        g.update(fin());
        let e2 = match outs[1] { Some(y) => Some(if y <= clip { y } else { clip }), None => e1 };
        assert!(bits(g.last()) == bits(e2));
    }
    #[kani::proof]
    fn add_bits() {
        let (oa, ob) = ([opt(), opt()], [opt(), opt()]);
        let mut v = Add::new(Oracle::new(oa), Oracle::new(ob));
        assert!(v.last().is_none());
        v.update(fin());
        assert!(bits(v.last()) == match (oa[0], ob[0]) { (Some(a), Some(b)) => Some((a + b).to_bits()), _ => None });
        v.update(fin());
        assert!(bits(v.last()) == match (oa[1], ob[1]) { (Some(a), Some(b)) => Some((a + b).to_bits()), _ => None });   // current outputs only
    }
    #[kani::proof]
    fn subtract_bits() {
        let (oa, ob) = ([opt(), opt()], [opt(), opt()]);
        let mut v = Subtract::new(Oracle::new(oa), Oracle::new(ob));
        v.update(fin());
        assert!(bits(v.last()) == match (oa[0], ob[0]) { (Some(a), Some(b)) => Some((a - b).to_bits()), _ => None });
        v.update(fin());
        assert!(bits(v.last()) == match (oa[1], ob[1]) { (Some(a), Some(b)) => Some((a - b).to_bits()), _ => None });
    }
    // gating only (no arithmetic recomputed): Multiply / Divide report a value iff both children do
    #[kani::proof]
    fn multiply_divide_gating() {
        let (oa, ob) = ([opt(), opt()], [opt(), opt()]);
        kani::assume(ob[0] != Some(0.0) && ob[1] != Some(0.0));
        let mut m = Multiply::new(Oracle::new(oa), Oracle::new(ob));
        let mut d = Divide::new(Oracle::new(oa), Oracle::new(ob));
        m.update(fin()); d.update(fin());
        assert!(m.last().is_some() == (oa[0].is_some() && ob[0].is_some()));
        assert!(d.last().is_some() == (oa[0].is_some() && ob[0].is_some()));
        m.update(fin()); d.update(fin());
        assert!(m.last().is_some() == (oa[1].is_some() && ob[1].is_some()));
        assert!(d.last().is_some() == (oa[1].is_some() && ob[1].is_some()));
    }
    // thorough tier: product bits (about 3-4 minutes of CBMC time)
    #[kani::proof]
    fn multiply_bits() {
        let (a, b) = (fin(), fin());
        let mut v = Multiply::new(Oracle::new([Some(a), None]), Oracle::new([Some(b), None]));
        v.update(fin());
        assert!(bits(v.last()) == Some((a * b).to_bits()));
    }
    // (a `divide_bits` harness of the same shape did not finish within 40 minutes of CBMC time - float division is too heavy to bit-blast;
    //  Divide's gating is proved above, its quotient by the Verus contract in the scalar model)
}
