//! Kani harnesses on the REAL crate (path dependency).  Loop-free, full f64 domain, with a universal oracle child: a harness-local
//! View whose successive outputs are arbitrary (chosen symbolically up front), so each proof covers every possible child view.
//! These are complete bit-level proofs of the pointwise/selection clauses of C14 (no unwinding bound is involved: there is no loop).
#![allow(dead_code)]
#[cfg(kani)]
mod proofs {
    use sliding_features::pure_functions::*;
    use sliding_features::View;

    #[derive(Clone)]
    struct Oracle { outs: [Option<f64>; 2], i: usize }
    impl Oracle { fn new(outs: [Option<f64>; 2]) -> Self { Oracle { outs, i: 0 } } }
    impl View<f64> for Oracle {
        fn update(&mut self, _v: f64) { if self.i < 2 { self.i += 1; } }
        fn last(&self) -> Option<f64> { if self.i == 0 { None } else { self.outs[self.i - 1] } }
    }
    fn fin() -> f64 { let x: f64 = kani::any(); kani::assume(x.is_finite()); x }
    fn opt() -> Option<f64> { if kani::any() { Some(fin()) } else { None } }
    fn bits(o: Option<f64>) -> Option<u64> { o.map(f64::to_bits) }

    #[kani::proof]
    fn echo_constant_bits() {
        let (x1, x2, c) = (fin(), fin(), fin());
        let mut e: Echo<f64> = Echo::new();
        assert!(e.last().is_none());
        e.update(x1); assert!(bits(e.last()) == Some(x1.to_bits()));
        e.update(x2); assert!(bits(e.last()) == Some(x2.to_bits()));      // latest input only
        let mut k = Constant::new(c);
        assert!(bits(k.last()) == Some(c.to_bits()));
        k.update(x1); assert!(bits(k.last()) == Some(c.to_bits()));
    }
    #[kani::proof]
    fn gte_bits() {
        let outs = [opt(), opt()]; let clip = fin();
        let mut g = GTE::new(Oracle::new(outs), clip);
        g.update(fin());
        let e1 = outs[0].map(|y| if y >= clip { y } else { clip });
        assert!(bits(g.last()) == bits(e1));
        g.update(fin());
        let e2 = match outs[1] { Some(y) => Some(if y >= clip { y } else { clip }), None => e1 };   // silent child: answer unchanged
        assert!(bits(g.last()) == bits(e2));
    }
    #[kani::proof]
    fn lte_bits() {
        let outs = [opt(), opt()]; let clip = fin();
        let mut g = LTE::new(Oracle::new(outs), clip);
        g.update(fin());
        let e1 = outs[0].map(|y| if y <= clip { y } else { clip });
        assert!(bits(g.last()) == bits(e1));
        g.update(fin());
        let e2 = match outs[1] { Some(y) => Some(if y <= clip { y } else { clip }), None => e1 };
        assert!(bits(g.last()) == bits(e2));
    }
    #[kani::proof]
    fn add_bits() {
        let (oa, ob) = ([opt(), opt()], [opt(), opt()]);
        let mut v = Add::new(Oracle::new(oa), Oracle::new(ob));
        assert!(v.last().is_none());
        v.update(fin());
        assert!(bits(v.last()) == match (oa[0], ob[0]) { (Some(a), Some(b)) => Some((a + b).to_bits()), _ => None });
        v.update(fin());
        assert!(bits(v.last()) == match (oa[1], ob[1]) { (Some(a), Some(b)) => Some((a + b).to_bits()), _ => None });   // current outputs only
    }
    #[kani::proof]
    fn subtract_bits() {
        let (oa, ob) = ([opt(), opt()], [opt(), opt()]);
        let mut v = Subtract::new(Oracle::new(oa), Oracle::new(ob));
        v.update(fin());
        assert!(bits(v.last()) == match (oa[0], ob[0]) { (Some(a), Some(b)) => Some((a - b).to_bits()), _ => None });
        v.update(fin());
        assert!(bits(v.last()) == match (oa[1], ob[1]) { (Some(a), Some(b)) => Some((a - b).to_bits()), _ => None });
    }
    // gating only (no arithmetic recomputed): Multiply / Divide report a value iff both children do
    #[kani::proof]
    fn multiply_divide_gating() {
        let (oa, ob) = ([opt(), opt()], [opt(), opt()]);
        kani::assume(ob[0] != Some(0.0) && ob[1] != Some(0.0));
        let mut m = Multiply::new(Oracle::new(oa), Oracle::new(ob));
        let mut d = Divide::new(Oracle::new(oa), Oracle::new(ob));
        m.update(fin()); d.update(fin());
        assert!(m.last().is_some() == (oa[0].is_some() && ob[0].is_some()));
        assert!(d.last().is_some() == (oa[0].is_some() && ob[0].is_some()));
        m.update(fin()); d.update(fin());
        assert!(m.last().is_some() == (oa[1].is_some() && ob[1].is_some()));
        assert!(d.last().is_some() == (oa[1].is_some() && ob[1].is_some()));
    }
    // thorough tier: product bits (about 3-4 minutes of CBMC time)
    #[kani::proof]
    fn multiply_bits() {
        let (a, b) = (fin(), fin());
        let mut v = Multiply::new(Oracle::new([Some(a), None]), Oracle::new([Some(b), None]));
        v.update(fin());
        assert!(bits(v.last()) == Some((a * b).to_bits()));
    }
    // (a `divide_bits` harness of the same shape did not finish within 40 minutes of CBMC time - float division is too heavy to bit-blast;
    //  Divide's gating is proved above, its quotient by the Verus contract in the scalar model)
}

// Bounded checks (sequences of at most 3 elements, ring buffer rotated by up to 2 positions) of the contracts that the Verus shim ASSUMES for
// std: the helpers standing for `q.iter()[.copied()].min_by/max_by(partial_cmp ..)` (rule R2), `Vec::last().copied()` (R6), `clone()` of scalar
// buffers (M4), and the `assume_specification`s of VecDeque::{front, back, get, is_empty}.  The expressions are the ones in /repo/src, run on the
// real std.  Bounded stand-ins for trusted contracts: reported as such, never as proofs.
#[cfg(kani)]
mod std_specs {
    use std::cmp::Ordering;
    use std::collections::VecDeque;
    const MAXN: usize = 3;
    fn fin() -> f64 { let x: f64 = kani::any(); kani::assume(x.is_finite()); x }
    /// a deque whose contents are `sh[..n]`, with its head rotated by `rot` slots inside the ring buffer; `rot` and `n` are concrete (the
    /// harnesses enumerate all 12 layouts), the element values are symbolic over all finite f64
    fn mk_deque(rot: usize, n: usize) -> (VecDeque<f64>, [f64; MAXN], usize) {
        let mut q: VecDeque<f64> = VecDeque::with_capacity(MAXN);
        if rot >= 1 { q.push_back(0.0); q.pop_front(); }
        if rot >= 2 { q.push_back(0.0); q.pop_front(); }
        let sh = [fin(), fin(), fin()];
        if n >= 1 { q.push_back(sh[0]); }
        if n >= 2 { q.push_back(sh[1]); }
        if n >= 3 { q.push_back(sh[2]); }
        (q, sh, n)
    }
    fn layouts(f: fn(usize, usize)) { let mut rot = 0; while rot < MAXN { let mut n = 0; while n <= MAXN { f(rot, n); n += 1; } rot += 1; } }
    fn is_min_of(m: f64, sh: &[f64; MAXN], n: usize) -> bool {
        let mut all = true; let mut some = false; let mut i = 0;
        while i < n { if !(m <= sh[i]) { all = false; } if m.to_bits() == sh[i].to_bits() { some = true; } i += 1; }
        all && some
    }
    fn is_max_of(m: f64, sh: &[f64; MAXN], n: usize) -> bool {
        let mut all = true; let mut some = false; let mut i = 0;
        while i < n { if !(m >= sh[i]) { all = false; } if m.to_bits() == sh[i].to_bits() { some = true; } i += 1; }
        all && some
    }
    #[kani::proof]
    #[kani::unwind(5)]
    fn std_min_max_by() { layouts(min_max_by) }
    fn min_max_by(rot: usize, n: usize) {
        let (q, sh, n) = mk_deque(rot, n);
        // Min / Max (src/sliding_windows/min.rs, max.rs)
        let mn = q.iter().copied().min_by(|a, b| a.partial_cmp(b).expect("Can compare elements"));
        let mx = q.iter().copied().max_by(|a, b| a.partial_cmp(b).expect("Can compare elements"));
        assert!(mn.is_none() == (n == 0)); assert!(mx.is_none() == (n == 0));
        if n > 0 {
            assert!(is_min_of(mn.unwrap(), &sh, n)); assert!(is_max_of(mx.unwrap(), &sh, n));
            // EhlersFisherTransform (src/sliding_windows/ehlers_fisher_transform.rs)
            let hi = *q.iter().max_by(|x, y| x.partial_cmp(y).unwrap_or(Ordering::Equal)).unwrap();
            let lo = *q.iter().min_by(|x, y| x.partial_cmp(y).unwrap_or(Ordering::Equal)).unwrap();
            assert!(is_max_of(hi, &sh, n)); assert!(is_min_of(lo, &sh, n));
        }
    }
    #[kani::proof]
    #[kani::unwind(5)]
    fn std_deque_access() { layouts(deque_access) }
    fn deque_access(rot: usize, n: usize) {
        let (q, sh, n) = mk_deque(rot, n);
        assert!(q.len() == n);
        assert!(q.is_empty() == (n == 0));
        assert!(q.front().map(|x| x.to_bits()) == if n > 0 { Some(sh[0].to_bits()) } else { None });
        assert!(q.back().map(|x| x.to_bits()) == if n > 0 { Some(sh[n - 1].to_bits()) } else { None });
        let i: usize = kani::any(); kani::assume(i <= MAXN + 1);
        assert!(q.get(i).map(|x| x.to_bits()) == if i < n { Some(sh[i].to_bits()) } else { None });
        assert!(q.get(i).copied().map(|x| x.to_bits()) == if i < n { Some(sh[i].to_bits()) } else { None });
        if i < n { assert!(q[i].to_bits() == sh[i].to_bits()); }
        // iteration order of `for v in q.iter()` / `.iter().enumerate()` (rules R1, R10): front to back
        let mut j = 0;
        for (k, v) in q.iter().enumerate() { assert!(k == j && v.to_bits() == sh[k].to_bits()); j += 1; }
        assert!(j == n);
    }
    #[kani::proof]
    #[kani::unwind(5)]
    fn std_clone_last() { layouts(clone_last) }
    fn clone_last(rot: usize, n: usize) {
        let (q, sh, n) = mk_deque(rot, n);
        let c = q.clone();
        assert!(c.len() == n);
        let i: usize = kani::any(); kani::assume(i < MAXN);
        if i < n { assert!(c[i].to_bits() == sh[i].to_bits() && q[i].to_bits() == sh[i].to_bits()); }
        let mut v: Vec<f64> = Vec::new();
        let mut k = 0; while k < n { v.push(sh[k]); k += 1; }
        let vc = v.clone();
        assert!(vc.len() == n);
        if i < n { assert!(vc[i].to_bits() == sh[i].to_bits()); }
        assert!(v.last().copied().map(|x| x.to_bits()) == if n > 0 { Some(sh[n - 1].to_bits()) } else { None });
    }
}
